//! Distributions for quantised-model workloads: the `probability` crate's families behind one
//! enum (so each (Symbol,Probability,PRECISION) combination is monomorphised once), the harness's
//! own *valid* step-shaped CDFs, and deliberately poor but legal inverse hints (finite and
//! monotone, as the LeakyQuantizer documentation requires).

use crate::prng::Rng;
use probability::distribution::{
    Binomial, Cauchy, Distribution, Exponential, Gaussian, Inverse, Laplace, Logistic, Triangular,
    Uniform,
};
use std::cell::Cell;

#[derive(Clone, Debug)]
pub enum Base {
    Gaussian(Gaussian, f64, f64),
    Cauchy(Cauchy, f64, f64),
    Laplace(Laplace, f64, f64),
    Exponential(Exponential, f64),
    Logistic(Logistic, f64, f64),
    Uniform(Uniform, f64, f64),
    Triangular(Triangular, f64, f64, f64),
    Binomial(Binomial, usize, f64),
    /// piecewise-constant right-continuous CDF: value cs[i] for x >= xs[i] (xs ascending,
    /// cs ascending in [0,1]); 0 below xs[0]
    Step(Vec<f64>, Vec<f64>),
}

#[derive(Clone, Debug)]
pub enum Hint {
    Exact,
    Constant(f64),
    Shifted(f64),
    Coarse(f64),
    Saturating(f64, f64),
}

#[derive(Clone, Debug)]
pub struct AnyDist {
    pub base: Base,
    pub hint: Hint,
    /// number of CDF evaluations since the last reset (non-termination watchdog)
    pub evals: Cell<u64>,
}

pub const EVAL_LIMIT: u64 = 2_000_000;

impl AnyDist {
    pub fn describe(&self) -> String {
        format!("{:?} hint={:?}", self.base, self.hint)
    }
    pub fn reset(&self) {
        self.evals.set(0);
    }
    fn base_inverse(&self, p: f64) -> f64 {
        match &self.base {
            Base::Gaussian(d, ..) => d.inverse(p),
            Base::Cauchy(d, ..) => d.inverse(p),
            Base::Laplace(d, ..) => d.inverse(p),
            Base::Exponential(d, ..) => d.inverse(p),
            Base::Logistic(d, ..) => d.inverse(p),
            Base::Uniform(d, ..) => d.inverse(p),
            Base::Triangular(d, ..) => d.inverse(p),
            Base::Binomial(d, ..) => d.inverse(p) as f64,
            Base::Step(xs, cs) => {
                for (x, c) in xs.iter().zip(cs) {
                    if *c >= p {
                        return *x;
                    }
                }
                *xs.last().unwrap()
            }
        }
    }
}

impl Distribution for AnyDist {
    type Value = f64;
    fn distribution(&self, x: f64) -> f64 {
        let n = self.evals.get() + 1;
        self.evals.set(n);
        if n > EVAL_LIMIT {
            panic!("harness watchdog: more than {EVAL_LIMIT} CDF evaluations in one model query (non-termination)");
        }
        match &self.base {
            Base::Gaussian(d, ..) => d.distribution(x),
            Base::Cauchy(d, ..) => d.distribution(x),
            Base::Laplace(d, ..) => d.distribution(x),
            Base::Exponential(d, ..) => d.distribution(x),
            Base::Logistic(d, ..) => d.distribution(x),
            Base::Uniform(d, ..) => d.distribution(x),
            Base::Triangular(d, ..) => d.distribution(x),
            Base::Binomial(d, ..) => d.distribution(x),
            Base::Step(xs, cs) => {
                let k = xs.partition_point(|&t| t <= x);
                if k == 0 {
                    0.0
                } else {
                    cs[k - 1]
                }
            }
        }
    }
}

impl Inverse for AnyDist {
    fn inverse(&self, p: f64) -> f64 {
        let v = match &self.hint {
            Hint::Exact => self.base_inverse(p),
            Hint::Constant(c) => *c,
            Hint::Shifted(d) => self.base_inverse(p) + *d,
            Hint::Coarse(k) => (self.base_inverse(p) / *k).floor() * *k,
            Hint::Saturating(lo, hi) => self.base_inverse(p).clamp(*lo, *hi),
        };
        if v.is_finite() {
            v
        } else if matches!(self.hint, Hint::Exact) {
            // the third-party inverse itself is non-finite here (e.g. at extreme parameters);
            // keep the documented precondition (finite) by saturating
            if v.is_nan() {
                0.0
            } else if v > 0.0 {
                1e300
            } else {
                -1e300
            }
        } else if v.is_nan() {
            0.0
        } else if v > 0.0 {
            1e300
        } else {
            -1e300
        }
    }
}

fn log_uniform(rng: &mut Rng, lo_exp: f64, hi_exp: f64) -> f64 {
    10f64.powf(lo_exp + (hi_exp - lo_exp) * rng.f64())
}

/// Location relative to a support [lo, hi]: inside, at the edges, far outside.
fn location(rng: &mut Rng, lo: f64, hi: f64) -> f64 {
    match rng.below(8) {
        0 => lo,
        1 => hi,
        2 => lo - log_uniform(rng, 0.0, 12.0),
        3 => hi + log_uniform(rng, 0.0, 12.0),
        4 => (if rng.bool() { 1.0 } else { -1.0 }) * log_uniform(rng, 20.0, 300.0),
        5 => (lo + hi) / 2.0 + 0.5,
        _ => lo + (hi - lo) * rng.f64(),
    }
}

fn scale(rng: &mut Rng, width: f64) -> f64 {
    match rng.below(8) {
        0 => log_uniform(rng, -300.0, -10.0),
        1 => log_uniform(rng, 10.0, 300.0),
        2 => log_uniform(rng, -10.0, 10.0),
        3 => 1e-3,
        4 => width.max(1.0) * 100.0,
        _ => (width.max(1.0) * (0.01 + rng.f64())).max(1e-6),
    }
}

/// Generate a distribution suited to a support [lo, hi] (as f64).
pub fn gen_dist(rng: &mut Rng, lo: f64, hi: f64) -> AnyDist {
    let width = hi - lo;
    let base = match rng.below(10) {
        0 | 1 => {
            let (m, s) = (location(rng, lo, hi), scale(rng, width));
            Base::Gaussian(Gaussian::new(m, s), m, s)
        }
        2 => {
            let (m, s) = (location(rng, lo, hi), scale(rng, width));
            Base::Cauchy(Cauchy::new(m, s), m, s)
        }
        3 => {
            let (m, s) = (location(rng, lo, hi), scale(rng, width));
            Base::Laplace(Laplace::new(m, s), m, s)
        }
        4 => {
            let l = 1.0 / scale(rng, width);
            let l = if l.is_finite() && l > 0.0 { l } else { 1.0 };
            Base::Exponential(Exponential::new(l), l)
        }
        5 => {
            let (m, s) = (location(rng, lo, hi), scale(rng, width));
            Base::Logistic(Logistic::new(m, s), m, s)
        }
        6 => {
            let a = location(rng, lo, hi).clamp(-1e290, 1e290);
            let b = a + scale(rng, width).min(1e290);
            // make sure b > a even where a + scale rounds back to a
            let b = if b > a { b } else { a + a.abs().max(1.0) * 1e-9 };
            Base::Uniform(Uniform::new(a, b), a, b)
        }
        7 => {
            let a = location(rng, lo, hi).clamp(-1e12, 1e12);
            let wdt = scale(rng, width).clamp(1e-3, 1e12).max(a.abs() * 1e-9);
            let b = a + wdt;
            let c = a + wdt * rng.f64();
            Base::Triangular(Triangular::new(a, b, c), a, b, c)
        }
        8 => {
            // discrete: binomial with n < 1000 (above that the third-party inverse may not
            // terminate for small p, as noted in the repository's own tests)
            let n = rng.usize_in(1, 600);
            let p = match rng.below(4) {
                0 => 1e-30,
                1 => 1.0 - 1e-9,
                _ => rng.f64().clamp(1e-12, 1.0 - 1e-12),
            };
            Base::Binomial(Binomial::new(n, p), n, p)
        }
        _ => {
            // step-shaped CDF: jumps at a few points (anywhere relative to the support), flat
            // in between; total mass may be < 1 and the first value may be > 0
            let k = rng.usize_in(1, 6);
            let mut xs: Vec<f64> = (0..k)
                .map(|_| match rng.below(4) {
                    0 => lo - 1.0 - rng.f64() * 1000.0,
                    1 => hi + 1.0 + rng.f64() * 1000.0,
                    _ => (lo + width * rng.f64()).floor() + if rng.bool() { 0.5 } else { 0.0 },
                })
                .collect();
            xs.sort_by(|a, b| a.partial_cmp(b).unwrap());
            xs.dedup();
            let mut cs: Vec<f64> = (0..xs.len()).map(|_| rng.f64()).collect();
            cs.sort_by(|a, b| a.partial_cmp(b).unwrap());
            if rng.bool() {
                *cs.last_mut().unwrap() = 1.0;
            }
            if rng.chance(1, 4) {
                cs[0] = 0.0;
            }
            Base::Step(xs, cs)
        }
    };
    let hint = match rng.below(9) {
        0 => Hint::Constant(location(rng, lo, hi).clamp(-1e300, 1e300)),
        1 => Hint::Shifted((rng.f64() - 0.5) * width.max(4.0) * 4.0),
        2 => Hint::Coarse(1.0 + rng.f64() * width.max(2.0)),
        3 => Hint::Saturating(lo + width * 0.25, lo + width * 0.75),
        4 => Hint::Constant(if rng.bool() { 1e300 } else { -1e300 }),
        _ => Hint::Exact,
    };
    AnyDist {
        base,
        hint,
        evals: Cell::new(0),
    }
}
