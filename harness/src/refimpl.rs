//! Independent reference implementations (oracles), written from the published algorithms
//! and the repository's documentation (`notes/range-coding.md`, module docs), with word and
//! state widths as *runtime* numbers and plain `u128` arithmetic. No library code is used.

use crate::num::{mask, pow2};

// ==========================================================================================
// Streaming rANS (stack)

#[derive(Clone, Debug, PartialEq, Eq)]
pub struct RefAns {
    pub w: u32,
    pub s: u32,
    pub bulk: Vec<u128>,
    pub head: u128,
}

impl RefAns {
    pub fn new(w: u32, s: u32) -> Self {
        RefAns {
            w,
            s,
            bulk: Vec::new(),
            head: 0,
        }
    }

    /// Import of "compressed" words: the last word must be non-zero; words are pulled from
    /// the end into the head until the head has its top word occupied or data runs out.
    pub fn from_compressed(w: u32, s: u32, words: &[u128]) -> Option<Self> {
        let mut bulk = words.to_vec();
        let mut head = 0u128;
        if let Some(first) = bulk.pop() {
            if first == 0 {
                return None;
            }
            head = first;
            while head < pow2(s - w) {
                match bulk.pop() {
                    Some(x) => head = (head << w) | x,
                    None => break,
                }
            }
        }
        Some(RefAns { w, s, bulk, head })
    }

    /// Import of raw binary data: an implicit 1 bit is put above the data.
    pub fn from_binary(w: u32, s: u32, words: &[u128]) -> Self {
        let mut bulk = words.to_vec();
        let mut head = 1u128;
        while head < pow2(s - w) {
            match bulk.pop() {
                Some(x) => head = (head << w) | x,
                None => break,
            }
        }
        RefAns { w, s, bulk, head }
    }

    pub fn encode(&mut self, cum: u128, p: u128, prec: u32) {
        debug_assert!(p > 0 && cum + p <= pow2(prec));
        if (self.head >> (self.s - prec)) >= p {
            self.bulk.push(self.head & mask(self.w));
            self.head >>= self.w;
        }
        self.head = ((self.head / p) << prec) | (cum + self.head % p);
    }

    /// `lookup(q) -> (cum, p)` of the symbol whose interval contains quantile q. Returns q.
    pub fn decode(&mut self, prec: u32, lookup: impl FnOnce(u128) -> (u128, u128)) -> u128 {
        let q = self.head & mask(prec);
        let (cum, p) = lookup(q);
        self.head = (self.head >> prec) * p + (q - cum);
        if self.head < pow2(self.s - self.w) {
            if let Some(x) = self.bulk.pop() {
                self.head = (self.head << self.w) | x;
            }
        }
        q
    }

    /// Export: bulk followed by the head's words, least significant first, without leading
    /// (most significant) zero words.
    pub fn compressed(&self) -> Vec<u128> {
        let mut out = self.bulk.clone();
        let mut h = self.head;
        while h != 0 {
            out.push(h & mask(self.w));
            h >>= self.w;
        }
        out
    }

    /// Raw-binary export: only defined if the head is a 1 marker followed by a whole number
    /// of words.
    pub fn binary(&self) -> Option<Vec<u128>> {
        if self.head == 0 {
            return None;
        }
        let top = 127 - self.head.leading_zeros(); // position of marker bit
        if top % self.w != 0 {
            return None;
        }
        let mut out = self.bulk.clone();
        let payload = self.head ^ (1u128 << top);
        for i in 0..(top / self.w) {
            out.push((payload >> (i * self.w)) & mask(self.w));
        }
        Some(out)
    }

    pub fn num_valid_bits(&self) -> usize {
        let head_bits = if self.head == 0 {
            0
        } else {
            (127 - self.head.leading_zeros()) as usize
        };
        self.bulk.len() * self.w as usize + head_bits
    }
}

// ==========================================================================================
// Carry-propagating range coder (queue). `low` is conceptually an unbounded big-endian digit
// string: digits already emitted stay mutable and a carry ripples to the left.

#[derive(Clone, Debug)]
pub struct RefRange {
    pub w: u32,
    pub s: u32,
    pub digits: Vec<u128>,
    pub low: u128,
    pub range: u128,
    pub nsym: u64,
    /// number of carries that rippled into `digits` so far (telemetry)
    pub carries: u64,
    /// longest ripple (number of digits changed by one carry)
    pub longest_ripple: u64,
}

impl RefRange {
    pub fn new(w: u32, s: u32) -> Self {
        RefRange {
            w,
            s,
            digits: Vec::new(),
            low: 0,
            range: mask(s),
            nsym: 0,
            carries: 0,
            longest_ripple: 0,
        }
    }

    fn carry(digits: &mut Vec<u128>, w: u32, carries: &mut u64, longest: &mut u64) {
        *carries += 1;
        let mut i = digits.len();
        let mut ripple = 0u64;
        loop {
            assert!(i > 0, "reference range coder: carry out of the first digit");
            i -= 1;
            ripple += 1;
            if digits[i] == mask(w) {
                digits[i] = 0;
            } else {
                digits[i] += 1;
                break;
            }
        }
        if ripple > *longest {
            *longest = ripple;
        }
    }

    pub fn encode(&mut self, cum: u128, p: u128, prec: u32) {
        debug_assert!(p > 0 && cum + p <= pow2(prec));
        let scale = self.range >> prec;
        let add = scale * cum;
        let (sum, overflow) = add_mod(self.low, add, self.s);
        self.low = sum;
        if overflow {
            Self::carry(
                &mut self.digits,
                self.w,
                &mut self.carries,
                &mut self.longest_ripple,
            );
        }
        self.range = scale * p;
        if self.range < pow2(self.s - self.w) {
            self.digits.push(self.low >> (self.s - self.w));
            self.low = (self.low << self.w) & mask(self.s);
            self.range <<= self.w;
        }
        self.nsym += 1;
    }

    /// Sealed output per `notes/range-coding.md`: the top word of
    /// `point = low + 2^(s-w) - 1`, followed by a zero word iff the top word of
    /// `low + range` equals it (i.e. the next word boundary is outside the interval).
    pub fn sealed(&self) -> Vec<u128> {
        let mut digits = self.digits.clone();
        if self.nsym == 0 {
            return digits;
        }
        let (point, overflow) = add_mod(self.low, pow2(self.s - self.w) - 1, self.s);
        if overflow {
            let (mut c, mut l) = (0, 0);
            Self::carry(&mut digits, self.w, &mut c, &mut l);
        }
        let point_word = point >> (self.s - self.w);
        digits.push(point_word);
        let (upper, _) = add_mod(self.low, self.range, self.s);
        let upper_word = upper >> (self.s - self.w);
        if upper_word == point_word {
            // documented sealing rule, step 4 (notes/range-coding.md): State::BITS / Word::BITS - 1
            // zero words, so that the value a decoder reads stays below `upper` whatever follows
            for _ in 1..self.s / self.w {
                digits.push(0);
            }
        }
        digits
    }
}

/// (a + b) mod 2^s with overflow flag, s <= 128.
#[inline(always)]
pub fn add_mod(a: u128, b: u128, s: u32) -> (u128, bool) {
    if s == 128 {
        a.overflowing_add(b)
    } else {
        let r = a + b;
        (r & mask(s), r >> s != 0)
    }
}

/// Reference range *decoder* over a word slice with an optional conceptual suffix of zeros
/// (exactly the documented behaviour at end of data). Used as a second opinion in C11.
pub struct RefRangeDecoder<'a> {
    pub w: u32,
    pub s: u32,
    pub words: &'a [u128],
    pub pos: usize,
    pub low: u128,
    pub range: u128,
    pub point: u128,
}

impl<'a> RefRangeDecoder<'a> {
    pub fn new(w: u32, s: u32, words: &'a [u128]) -> Self {
        let mut point = 0u128;
        let mut pos = 0;
        for _ in 0..(s / w) {
            let x = if pos < words.len() {
                let x = words[pos];
                pos += 1;
                x
            } else {
                0
            };
            point = if s == 128 && w == 128 {
                x
            } else {
                ((point << w) & mask(s)) | x
            };
        }
        RefRangeDecoder {
            w,
            s,
            words,
            pos,
            low: 0,
            range: mask(s),
            point,
        }
    }

    /// Returns the quantile (or None if it is >= 2^prec: invalid data) and lets the caller
    /// supply (cum, p) for it.
    pub fn decode(
        &mut self,
        prec: u32,
        lookup: impl FnOnce(u128) -> (u128, u128),
    ) -> Option<u128> {
        let scale = self.range >> prec;
        let diff = self.point.wrapping_sub(self.low) & mask(self.s);
        let q = diff / scale;
        if q >= pow2(prec) {
            return None;
        }
        let (cum, p) = lookup(q);
        self.low = add_mod(self.low, scale * cum, self.s).0;
        self.range = scale * p;
        if self.range < pow2(self.s - self.w) {
            self.low = (self.low << self.w) & mask(self.s);
            self.range <<= self.w;
            let x = if self.pos < self.words.len() {
                let x = self.words[self.pos];
                self.pos += 1;
                x
            } else {
                0
            };
            self.point = ((self.point << self.w) & mask(self.s)) | x;
        }
        Some(q)
    }
}
