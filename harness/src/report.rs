//! Per-process run state: counters, violations, samples, distinct-case hashes; JSON-lines output.

use std::collections::{BTreeMap, HashSet};
use std::io::Write;

#[derive(Clone, Copy, PartialEq, Eq, Debug)]
pub enum Tier {
    Quick,
    Thorough,
}

/// What the current case is doing (for the hang watchdog).
pub static LAST_NOTE: std::sync::Mutex<String> = std::sync::Mutex::new(String::new());
/// Index of the case currently running (u64::MAX - 1 = none).
pub static CUR_INDEX: std::sync::atomic::AtomicU64 = std::sync::atomic::AtomicU64::new(u64::MAX - 1);

/// Bumped by long-running deterministic work (sweeps) so that the watchdog sees progress.
pub static HEARTBEAT: std::sync::atomic::AtomicU64 = std::sync::atomic::AtomicU64::new(0);

pub struct Run {
    pub prop: &'static str,
    pub seed: u64,
    pub shard: u64,
    pub nshards: u64,
    pub tier: Tier,
    pub flavour: String,
    /// scale factor for sizes (miri uses a small one)
    pub small: bool,
    /// --trace: print notes to stderr (used to identify hanging/aborting cases)
    pub trace: bool,
    // ---- per case
    pub index: u64,
    case_hash: u64,
    case_nontrivial: bool,
    case_desc: String,
    // ---- accumulated
    pub evaluations: u64,
    pub counters: BTreeMap<&'static str, u64>,
    pub maxima: BTreeMap<&'static str, f64>,
    pub violations: u64,
    pub panics_observed: u64,
    hashes: HashSet<u64>,
    samples: Vec<String>,
    printed_violations: u64,
    pub sig_counts: BTreeMap<String, u64>,
    pub hash_cap: usize,
}

pub fn json_escape(s: &str) -> String {
    let mut o = String::with_capacity(s.len() + 2);
    for c in s.chars() {
        match c {
            '"' => o.push_str("\\\""),
            '\\' => o.push_str("\\\\"),
            '\n' => o.push_str("\\n"),
            '\r' => o.push_str("\\r"),
            '\t' => o.push_str("\\t"),
            c if (c as u32) < 0x20 => o.push_str(&format!("\\u{:04x}", c as u32)),
            c => o.push(c),
        }
    }
    o
}

impl Run {
    pub fn new(
        prop: &'static str,
        seed: u64,
        shard: u64,
        nshards: u64,
        tier: Tier,
        flavour: String,
    ) -> Self {
        let small = flavour == "miri";
        Run {
            prop,
            seed,
            shard,
            nshards,
            tier,
            flavour,
            small,
            trace: false,
            index: 0,
            case_hash: 0,
            case_nontrivial: false,
            case_desc: String::new(),
            evaluations: 0,
            counters: BTreeMap::new(),
            maxima: BTreeMap::new(),
            violations: 0,
            panics_observed: 0,
            hashes: HashSet::new(),
            samples: Vec::new(),
            printed_violations: 0,
            sig_counts: BTreeMap::new(),
            hash_cap: if tier == Tier::Thorough { 400_000 } else { 50_000 },
        }
    }

    pub fn thorough(&self) -> bool {
        self.tier == Tier::Thorough
    }

    pub fn begin_case(&mut self, index: u64) {
        CUR_INDEX.store(index, std::sync::atomic::Ordering::SeqCst);
        if let Ok(mut g) = LAST_NOTE.lock() {
            g.clear();
        }
        self.index = index;
        self.case_hash = 0xcbf2_9ce4_8422_2325;
        self.case_nontrivial = false;
        self.case_desc.clear();
    }

    /// Mix a value into the canonical hash of the current case.
    #[inline(always)]
    pub fn h(&mut self, v: u64) {
        let mut x = self.case_hash ^ v;
        x = x.wrapping_mul(0x0000_0100_0000_01B3);
        x ^= x >> 29;
        x = x.wrapping_mul(0xBF58_476D_1CE4_E5B9);
        x ^= x >> 32;
        self.case_hash = x;
    }

    #[inline(always)]
    pub fn h128(&mut self, v: u128) {
        self.h(v as u64);
        self.h((v >> 64) as u64);
    }

    #[inline(always)]
    pub fn nontrivial(&mut self) {
        self.case_nontrivial = true;
    }

    /// Set the human-readable description of the current case (kept for the first few only).
    pub fn describe(&mut self, f: impl FnOnce() -> String) {
        if self.samples.len() < 4 {
            self.case_desc = f();
        }
    }

    /// In trace mode, print what the case is about to do (so that a hang or abort can be
    /// attributed to a concrete input).
    pub fn note(&self, f: impl FnOnce() -> String) {
        let s = f();
        if self.trace {
            eprintln!("# {}", s);
        }
        if let Ok(mut g) = LAST_NOTE.lock() {
            *g = s;
        }
    }

    pub fn heartbeat(&self) {
        HEARTBEAT.fetch_add(1, std::sync::atomic::Ordering::Relaxed);
    }

    pub fn wants_description(&self) -> bool {
        self.samples.len() < 4
    }

    pub fn end_case(&mut self) {
        self.evaluations += 1;
        if self.case_nontrivial && self.hashes.len() < self.hash_cap {
            self.hashes.insert(self.case_hash);
        }
        if self.samples.len() < 4 && !self.case_desc.is_empty() {
            let d = std::mem::take(&mut self.case_desc);
            self.samples.push(d);
        }
    }

    #[inline(always)]
    pub fn count(&mut self, key: &'static str, n: u64) {
        if n != 0 {
            *self.counters.entry(key).or_insert(0) += n;
        }
    }

    #[inline(always)]
    pub fn touch(&mut self, key: &'static str) {
        self.counters.entry(key).or_insert(0);
    }

    pub fn maximum(&mut self, key: &'static str, v: f64) {
        let e = self.maxima.entry(key).or_insert(f64::NEG_INFINITY);
        if v > *e {
            *e = v;
        }
    }

    /// Record a violation. `sig` is the root-cause signature used to match known findings.
    pub fn violation(&mut self, kind: &str, sig: &str, detail: String) {
        self.violations += 1;
        let c = self.sig_counts.entry(sig.to_string()).or_insert(0);
        *c += 1;
        if *c <= 3 && self.printed_violations < 60 {
            self.printed_violations += 1;
            let mut d = detail;
            if d.len() > 6000 {
                d.truncate(6000);
                d.push_str("...[truncated]");
            }
            println!(
                "{{\"type\":\"violation\",\"prop\":\"{}\",\"flavour\":\"{}\",\"seed\":{},\"shard\":{},\"nshards\":{},\"index\":{},\"kind\":\"{}\",\"sig\":\"{}\",\"detail\":\"{}\"}}",
                self.prop,
                json_escape(&self.flavour),
                self.seed,
                self.shard,
                self.nshards,
                self.index,
                json_escape(kind),
                json_escape(sig),
                json_escape(&d)
            );
            let _ = std::io::stdout().flush();
        }
    }

    pub fn finish(&mut self, hash_file: Option<&str>) {
        if let Some(path) = hash_file {
            if let Ok(mut f) = std::fs::File::create(path) {
                let mut buf = Vec::with_capacity(self.hashes.len() * 8);
                for h in &self.hashes {
                    buf.extend_from_slice(&h.to_le_bytes());
                }
                let _ = f.write_all(&buf);
            }
        }
        let mut s = String::new();
        s.push_str(&format!(
            "{{\"type\":\"summary\",\"prop\":\"{}\",\"flavour\":\"{}\",\"seed\":{},\"shard\":{},\"evaluations\":{},\"distinct_nontrivial\":{},\"violations\":{},\"panics_observed\":{},\"counters\":{{",
            self.prop,
            json_escape(&self.flavour),
            self.seed,
            self.shard,
            self.evaluations,
            self.hashes.len(),
            self.violations,
            self.panics_observed
        ));
        let mut first = true;
        for (k, v) in &self.counters {
            if !first {
                s.push(',');
            }
            first = false;
            s.push_str(&format!("\"{}\":{}", json_escape(k), v));
        }
        s.push_str("},\"sig_counts\":{");
        first = true;
        for (k, v) in &self.sig_counts {
            if !first {
                s.push(',');
            }
            first = false;
            s.push_str(&format!("\"{}\":{}", json_escape(k), v));
        }
        s.push_str("},\"maxima\":{");
        first = true;
        for (k, v) in &self.maxima {
            if !first {
                s.push(',');
            }
            first = false;
            let v = if v.is_finite() { *v } else { -1.0 };
            s.push_str(&format!("\"{}\":{}", json_escape(k), v));
        }
        s.push_str("},\"samples\":[");
        first = true;
        for d in &self.samples {
            if !first {
                s.push(',');
            }
            first = false;
            let mut d = d.clone();
            if d.len() > 1500 {
                d.truncate(1500);
                d.push_str("...");
            }
            s.push_str(&format!("\"{}\"", json_escape(&d)));
        }
        s.push_str("]}");
        println!("{}", s);
        let _ = std::io::stdout().flush();
    }
}

/// "A clone" can be obtained with `clone()` or with `clone_from()` onto an existing value with a
/// different history; both must give the same thing. This helper alternates between the two
/// and keeps a stale copy (taken at an earlier point of the history) as the `clone_from` target.
pub struct CloneVia<T> {
    stale: Option<T>,
}

impl<T: Clone> CloneVia<T> {
    pub fn new() -> Self {
        CloneVia { stale: None }
    }

    pub fn clone_of(&mut self, run: &mut Run, rng: &mut crate::prng::Rng, src: &T) -> T {
        let out = match self.stale.take() {
            Some(mut d) if rng.bool() => {
                d.clone_from(src);
                run.count("clones_via_clone_from_onto_stale_value", 1);
                d
            }
            _ => src.clone(),
        };
        if rng.bool() {
            self.stale = Some(src.clone());
        }
        out
    }
}
