//! Seeded PRNG (xoshiro256** seeded through splitmix64). No external crates.

#[derive(Clone, Debug)]
pub struct Rng {
    s: [u64; 4],
}

#[inline(always)]
pub fn splitmix(x: &mut u64) -> u64 {
    *x = x.wrapping_add(0x9E37_79B9_7F4A_7C15);
    let mut z = *x;
    z = (z ^ (z >> 30)).wrapping_mul(0xBF58_476D_1CE4_E5B9);
    z = (z ^ (z >> 27)).wrapping_mul(0x94D0_49BB_1331_11EB);
    z ^ (z >> 31)
}

/// Derive a case seed from (run seed, property tag, shard, case index).
pub fn case_seed(seed: u64, prop: u64, shard: u64, index: u64) -> u64 {
    let mut x = seed ^ 0xC0DE_C0DE_0000_0000;
    let a = splitmix(&mut x);
    let mut y = a ^ prop.wrapping_mul(0xD6E8_FEB8_6659_FD93);
    let b = splitmix(&mut y);
    let mut z = b ^ shard.wrapping_mul(0xA076_1D64_78BD_642F);
    let c = splitmix(&mut z);
    let mut w = c ^ index.wrapping_mul(0xE703_7ED1_A0B4_28DB);
    splitmix(&mut w)
}

impl Rng {
    pub fn new(seed: u64) -> Self {
        let mut x = seed;
        let s = [
            splitmix(&mut x),
            splitmix(&mut x),
            splitmix(&mut x),
            splitmix(&mut x),
        ];
        Rng { s }
    }

    #[inline(always)]
    pub fn u64(&mut self) -> u64 {
        let result = self.s[1].wrapping_mul(5).rotate_left(7).wrapping_mul(9);
        let t = self.s[1] << 17;
        self.s[2] ^= self.s[0];
        self.s[3] ^= self.s[1];
        self.s[1] ^= self.s[2];
        self.s[0] ^= self.s[3];
        self.s[2] ^= t;
        self.s[3] = self.s[3].rotate_left(45);
        result
    }

    #[inline(always)]
    pub fn u128(&mut self) -> u128 {
        ((self.u64() as u128) << 64) | self.u64() as u128
    }

    /// Uniform in [0, n) (n > 0). Slight modulo bias is irrelevant here.
    #[inline(always)]
    pub fn below(&mut self, n: u64) -> u64 {
        debug_assert!(n > 0);
        ((self.u64() as u128 * n as u128) >> 64) as u64
    }

    #[inline(always)]
    pub fn below128(&mut self, n: u128) -> u128 {
        debug_assert!(n > 0);
        if n <= u64::MAX as u128 {
            self.below(n as u64) as u128
        } else {
            self.u128() % n
        }
    }

    #[inline(always)]
    pub fn usize_in(&mut self, lo: usize, hi_incl: usize) -> usize {
        lo + self.below((hi_incl - lo + 1) as u64) as usize
    }

    #[inline(always)]
    pub fn chance(&mut self, num: u64, den: u64) -> bool {
        self.below(den) < num
    }

    #[inline(always)]
    pub fn bool(&mut self) -> bool {
        self.u64() & 1 == 1
    }

    pub fn f64(&mut self) -> f64 {
        (self.u64() >> 11) as f64 * (1.0 / (1u64 << 53) as f64)
    }

    pub fn pick<'a, T>(&mut self, xs: &'a [T]) -> &'a T {
        &xs[self.below(xs.len() as u64) as usize]
    }

    /// A value in [0, 2^bits) biased towards boundary values.
    pub fn edgy(&mut self, bits: u32) -> u128 {
        let m = crate::num::mask(bits);
        match self.below(10) {
            0 => 0,
            1 => m,
            2 => 1 & m,
            3 => m.wrapping_sub(1) & m,
            4 => {
                // a power of two +- 1
                let e = self.below(bits.max(1) as u64) as u32;
                let b = 1u128 << e;
                match self.below(3) {
                    0 => b & m,
                    1 => b.wrapping_sub(1) & m,
                    _ => (b + 1) & m,
                }
            }
            _ => self.u128() & m,
        }
    }
}
