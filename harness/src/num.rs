//! Tiny numeric helper so that harness code can move values between the library's generic
//! `BitArray` types and plain `u128` without a forest of `AsPrimitive` bounds.

use constriction::BitArray;

pub trait Num: BitArray {
    const NBITS: u32;
    const NAME: &'static str;
    fn of(x: u128) -> Self;
    fn as_u(self) -> u128;
    fn nz(x: u128) -> Self::NonZero {
        Self::of(x)
            .into_nonzero()
            .expect("harness bug: zero probability requested")
    }
}

macro_rules! impl_num {
    ($($t:ty),*) => {$(
        impl Num for $t {
            const NBITS: u32 = <$t>::BITS;
            const NAME: &'static str = stringify!($t);
            #[inline(always)]
            fn of(x: u128) -> Self { x as $t }
            #[inline(always)]
            fn as_u(self) -> u128 { self as u128 }
        }
    )*};
}
impl_num!(u8, u16, u32, u64, u128, usize);

/// 2^e as u128 (e <= 127), and mask helpers.
#[inline(always)]
pub fn pow2(e: u32) -> u128 {
    debug_assert!(e < 128);
    1u128 << e
}

#[inline(always)]
pub fn mask(bits: u32) -> u128 {
    if bits >= 128 {
        u128::MAX
    } else {
        (1u128 << bits) - 1
    }
}
