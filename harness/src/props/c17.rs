//! C17 — word sources and sinks honour their read/write/bounds/position contracts.
//!
//! Oracle: a tiny reference (`Vec` + index) run in lock step; *drain-a-clone* counts for
//! `remaining()` / `space_left()`; twin for `into_reversed`.

use crate::num::Num;
use crate::prng::Rng;
use crate::report::Run;
use constriction::backends::*;
use constriction::{Pos, Queue, Seek, Stack};
use smallvec::SmallVec;

fn w<W: Num>(rng: &mut Rng) -> W {
    W::of(rng.edgy(W::NBITS))
}

fn fmt<W: Num>(v: &[W]) -> Vec<u128> {
    v.iter().map(|x| x.as_u()).collect()
}

// --------------------------------------------------------------------------------------------
// Vec / SmallVec: stacks

fn vec_case<W: Num>(run: &mut Run, rng: &mut Rng) {
    run.count("vec_cases", 1);
    run.h(1 << 60 | W::NBITS as u64);
    let small = rng.bool();
    let mut v: Vec<W> = Vec::new();
    let mut sv: SmallVec<[W; 4]> = SmallVec::new();
    let mut model: Vec<W> = Vec::new();
    let n = rng.usize_in(1, if run.small { 20 } else { 60 });
    let mut log = Vec::new();
    macro_rules! fail {
        ($sig:expr, $($arg:tt)*) => {{
            run.violation("backend-contract", $sig, format!("{}<{}> ops {:?} :: {}", if small { "SmallVec" } else { "Vec" }, W::NAME, log, format!($($arg)*)));
            return;
        }};
    }
    for _ in 0..n {
        let op = rng.below(6);
        run.h(op);
        match op {
            0 => {
                let x = w::<W>(rng);
                if small {
                    sv.write(x).unwrap();
                } else {
                    v.write(x).unwrap();
                }
                model.push(x);
                log.push(format!("write({})", x.as_u()));
            }
            1 => {
                let xs: Vec<W> = (0..rng.usize_in(0, 4)).map(|_| w::<W>(rng)).collect();
                if small {
                    sv.extend_from_iter(xs.iter().copied()).unwrap();
                    if WriteWords::<W>::maybe_full(&sv) {
                        fail!("C17/vec-bounds", "SmallVec claims maybe_full()");
                    }
                } else {
                    v.extend_from_iter(xs.iter().copied()).unwrap();
                    if WriteWords::<W>::maybe_full(&v) {
                        fail!("C17/vec-bounds", "Vec claims maybe_full()");
                    }
                }
                model.extend_from_slice(&xs);
                log.push(format!("extend_from_iter({})", xs.len()));
            }
            2 => {
                let g = if small { ReadWords::<W, Stack>::read(&mut sv).unwrap() } else { ReadWords::<W, Stack>::read(&mut v).unwrap() };
                let e = model.pop();
                log.push("read".to_string());
                if g != e {
                    fail!("C17/vec-read", "stack read returned {:?}, expected {:?}", g.map(|x| x.as_u()), e.map(|x| x.as_u()));
                }
            }
            3 => {
                let (rem, pos, exh) = if small {
                    (BoundedReadWords::<W, Stack>::remaining(&sv), Pos::pos(&sv), ReadWords::<W, Stack>::maybe_exhausted(&sv))
                } else {
                    (BoundedReadWords::<W, Stack>::remaining(&v), Pos::pos(&v), ReadWords::<W, Stack>::maybe_exhausted(&v))
                };
                log.push("remaining/pos".to_string());
                if rem != model.len() || pos != model.len() || exh != model.is_empty() {
                    fail!("C17/vec-bounds", "remaining()={rem} pos()={pos} maybe_exhausted()={exh} with {} words", model.len());
                }
            }
            4 => {
                // seek (truncating); out of range must be refused and change nothing
                let target = if rng.chance(1, 3) { model.len() + 1 + rng.below(5) as usize } else { rng.usize_in(0, model.len()) };
                let r = if small { Seek::seek(&mut sv, target) } else { Seek::seek(&mut v, target) };
                log.push(format!("seek({target})"));
                if target > model.len() {
                    if r.is_ok() {
                        fail!("C17/seek-out-of-range-accepted", "seek({target}) accepted with {} words", model.len());
                    }
                } else {
                    if r.is_err() {
                        fail!("C17/seek-refused", "seek({target}) refused with {} words", model.len());
                    }
                    model.truncate(target);
                }
            }
            _ => {
                let cur: Vec<W> = if small { sv.to_vec() } else { v.clone() };
                if cur != model {
                    fail!("C17/vec-content", "content {:?} expected {:?}", fmt(&cur), fmt(&model));
                }
            }
        }
    }
    // reads after end stay None
    model.clear();
    if small {
        sv.clear();
        for _ in 0..3 {
            if ReadWords::<W, Stack>::read(&mut sv).unwrap().is_some() {
                fail!("C17/some-after-none", "read after end returned Some");
            }
        }
    } else {
        v.clear();
        for _ in 0..3 {
            if ReadWords::<W, Stack>::read(&mut v).unwrap().is_some() {
                fail!("C17/some-after-none", "read after end returned Some");
            }
        }
    }
    run.count("backend_ops", n as u64);
    run.describe(|| format!("{}<{}> {:?}", if small { "SmallVec" } else { "Vec" }, W::NAME, log));
}

// --------------------------------------------------------------------------------------------
// Cursor over owned / borrowed / mutable buffers, Reverse<Cursor>

#[derive(Clone, Debug)]
struct RefCursor<W> {
    buf: Vec<W>,
    pos: usize,
    reversed: bool,
}

fn cursor_case<W: Num>(run: &mut Run, rng: &mut Rng) {
    run.count("cursor_cases", 1);
    run.h(2 << 60 | W::NBITS as u64);
    let len = rng.usize_in(0, if run.small { 8 } else { 20 });
    let init: Vec<W> = (0..len).map(|_| w::<W>(rng)).collect();
    let pos0 = rng.usize_in(0, len);
    let kind = rng.below(4); // 0 Vec, 1 Box<[W]>, 2 &mut [W], 3 &[W] (read only)
    let n = rng.usize_in(1, if run.small { 20 } else { 60 });
    let mut reference = RefCursor { buf: init.clone(), pos: pos0, reversed: false };
    let mut log: Vec<String> = vec![format!("new_at_pos(len={len},pos={pos0},kind={kind})")];
    let mut mixed = (false, false);
    let mut reversed_in_place = false;

    // We drive a Cursor<W, Vec<W>> and mirror mutable operations; for the other buffer kinds we
    // rebuild the cursor from the reference state at every step (their behaviour must coincide).
    let mut cur: Cursor<W, Vec<W>> = Cursor::new_at_pos(init.clone(), pos0).unwrap();
    let mut clone_via: crate::report::CloneVia<Cursor<W, Vec<W>>> = crate::report::CloneVia::new();
    let mut rev: Option<Reverse<Cursor<W, Vec<W>>>> = None;

    macro_rules! fail {
        ($sig:expr, $($arg:tt)*) => {{
            run.violation("backend-contract", $sig, format!("Cursor<{}> ops {:?} :: {}", W::NAME, log, format!($($arg)*)));
            return;
        }};
    }
    for _ in 0..n {
        let op = rng.below(13);
        run.h(op);
        let is_rev = rev.is_some();
        match op {
            0 | 1 => {
                // stack read: on a plain cursor decrements then reads; on Reverse<Cursor> the
                // stack read is the inner *queue* read
                mixed.0 = true;
                let g = match &mut rev {
                    Some(r) => ReadWords::<W, Stack>::read(r).unwrap(),
                    None => ReadWords::<W, Stack>::read(&mut cur).unwrap(),
                };
                let e = if is_rev {
                    let e = reference.buf.get(reference.pos).copied();
                    if e.is_some() {
                        reference.pos += 1;
                    }
                    e
                } else if reference.pos == 0 {
                    None
                } else {
                    reference.pos -= 1;
                    Some(reference.buf[reference.pos])
                };
                log.push("read_stack".into());
                if g != e {
                    fail!("C17/cursor-read", "stack-semantics read returned {:?}, expected {:?}", g.map(|x| x.as_u()), e.map(|x| x.as_u()));
                }
            }
            2 | 3 => {
                mixed.1 = true;
                let g = match &mut rev {
                    Some(r) => ReadWords::<W, Queue>::read(r).unwrap(),
                    None => ReadWords::<W, Queue>::read(&mut cur).unwrap(),
                };
                let e = if is_rev {
                    if reference.pos == 0 {
                        None
                    } else {
                        reference.pos -= 1;
                        Some(reference.buf[reference.pos])
                    }
                } else {
                    let e = reference.buf.get(reference.pos).copied();
                    if e.is_some() {
                        reference.pos += 1;
                    }
                    e
                };
                log.push("read_queue".into());
                if g != e {
                    fail!("C17/cursor-read", "queue-semantics read returned {:?}, expected {:?}", g.map(|x| x.as_u()), e.map(|x| x.as_u()));
                }
            }
            4 | 5 => {
                let x = w::<W>(rng);
                let r = match &mut rev {
                    Some(r) => r.write(x),
                    None => cur.write(x),
                };
                let expect_ok = if is_rev { reference.pos > 0 } else { reference.pos < reference.buf.len() };
                if expect_ok {
                    if is_rev {
                        reference.pos -= 1;
                        reference.buf[reference.pos] = x;
                    } else {
                        reference.buf[reference.pos] = x;
                        reference.pos += 1;
                    }
                }
                log.push(format!("write({})", x.as_u()));
                if r.is_ok() != expect_ok {
                    fail!("C17/cursor-write", "write returned {:?}, expected ok={expect_ok} (pos {}, len {})", r, reference.pos, reference.buf.len());
                }
            }
            11 => {
                // bulk write: must behave exactly like writing word by word and stopping at the
                // first error (also for iterators whose size_hint is only a lower bound)
                let xs: Vec<W> = (0..rng.usize_in(0, 6)).map(|_| w::<W>(rng)).collect();
                // size hints: exact / upper bound only (filter) / no upper bound at all (from_fn)
                let loose = rng.below(3);
                let mut k = 0usize;
                let unbounded = std::iter::from_fn(|| {
                    let x = xs.get(k).copied();
                    k += 1;
                    x
                });
                let r = match (&mut rev, loose) {
                    (Some(r), 1) => r.extend_from_iter(xs.iter().copied().filter(|_| true)),
                    (Some(r), 0) => r.extend_from_iter(xs.iter().copied()),
                    (Some(r), _) => r.extend_from_iter(unbounded),
                    (None, 1) => cur.extend_from_iter(xs.iter().copied().filter(|_| true)),
                    (None, 0) => cur.extend_from_iter(xs.iter().copied()),
                    (None, _) => cur.extend_from_iter(unbounded),
                };
                let mut expect_ok = true;
                for &x in &xs {
                    let fits = if is_rev { reference.pos > 0 } else { reference.pos < reference.buf.len() };
                    if !fits {
                        expect_ok = false;
                        break;
                    }
                    if is_rev {
                        reference.pos -= 1;
                        reference.buf[reference.pos] = x;
                    } else {
                        reference.buf[reference.pos] = x;
                        reference.pos += 1;
                    }
                }
                log.push(format!("extend_from_iter({},loose_hint={loose})", xs.len()));
                if r.is_ok() != expect_ok {
                    fail!("C17/cursor-write", "extend_from_iter of {} words returned {:?}, writing word by word gives ok={expect_ok}", xs.len(), r);
                }
                let (p_now, b_now) = match &rev {
                    Some(r) => (r.pos(), r.0.buf().clone()),
                    None => (cur.pos(), cur.buf().clone()),
                };
                if p_now != reference.pos || b_now != reference.buf {
                    fail!("C17/cursor-write", "after extend_from_iter: (buf,pos) = ({:?},{p_now}), word-by-word gives ({:?},{})", fmt(&b_now), fmt(&reference.buf), reference.pos);
                }
                run.count("bulk_writes", 1);
            }
            6 => {
                // bounds: remaining / space_left must equal the number of reads / writes that then
                // succeed on a clone (drain-a-clone)
                log.push("bounds".into());
                match &rev {
                    None => {
                        let rs = BoundedReadWords::<W, Stack>::remaining(&cur);
                        let rq = BoundedReadWords::<W, Queue>::remaining(&cur);
                        let sl = cur.space_left();
                        let mut c = cur.clone();
                        let mut ns = 0;
                        while ReadWords::<W, Stack>::read(&mut c).unwrap().is_some() {
                            ns += 1;
                        }
                        let mut c = cur.clone();
                        let mut nq = 0;
                        while ReadWords::<W, Queue>::read(&mut c).unwrap().is_some() {
                            nq += 1;
                        }
                        let mut c = cur.clone();
                        let mut nw = 0;
                        while c.write(W::of(0)).is_ok() {
                            nw += 1;
                        }
                        if rs != ns || rq != nq {
                            fail!("C17/remaining", "remaining() stack={rs} queue={rq}, but {ns} / {nq} reads succeed");
                        }
                        if sl != nw {
                            fail!("C17/space_left", "space_left()={sl} but {nw} writes succeed");
                        }
                        if cur.is_full() != (nw == 0)
                            || BoundedReadWords::<W, Stack>::is_exhausted(&cur) != (ns == 0)
                            || BoundedReadWords::<W, Queue>::is_exhausted(&cur) != (nq == 0)
                            || ReadWords::<W, Stack>::maybe_exhausted(&cur) != (ns == 0)
                            || ReadWords::<W, Queue>::maybe_exhausted(&cur) != (nq == 0)
                        {
                            fail!("C17/is_full-is_exhausted", "is_full/is_exhausted disagree with what succeeds (reads {ns}/{nq}, writes {nw})");
                        }
                        run.count("bounds_checks", 1);
                    }
                    Some(r) => {
                        let rs = BoundedReadWords::<W, Stack>::remaining(r);
                        let rq = BoundedReadWords::<W, Queue>::remaining(r);
                        let sl = r.space_left();
                        let mk = || Reverse(r.0.clone());
                        let mut c = mk();
                        let mut ns = 0;
                        while ReadWords::<W, Stack>::read(&mut c).unwrap().is_some() {
                            ns += 1;
                        }
                        let mut c = mk();
                        let mut nq = 0;
                        while ReadWords::<W, Queue>::read(&mut c).unwrap().is_some() {
                            nq += 1;
                        }
                        let mut c = mk();
                        let mut nw = 0;
                        while c.write(W::of(0)).is_ok() {
                            nw += 1;
                        }
                        if rs != ns || rq != nq {
                            fail!("C17/remaining", "Reverse: remaining() stack={rs} queue={rq}, but {ns} / {nq} reads succeed");
                        }
                        if sl != nw {
                            fail!("C17/reverse-space_left", "Reverse<Cursor>::space_left()={sl} but {nw} writes succeed (pos {}, len {})", reference.pos, reference.buf.len());
                        }
                        if BoundedReadWords::<W, Stack>::is_exhausted(r) != (ns == 0)
                            || BoundedReadWords::<W, Queue>::is_exhausted(r) != (nq == 0)
                            || ReadWords::<W, Stack>::maybe_exhausted(r) != (ns == 0)
                            || ReadWords::<W, Queue>::maybe_exhausted(r) != (nq == 0)
                        {
                            fail!("C17/is_full-is_exhausted", "Reverse: is_exhausted/maybe_exhausted disagree with what succeeds (reads {ns}/{nq})");
                        }
                        if r.is_full() != (nw == 0) {
                            fail!("C17/reverse-space_left", "Reverse<Cursor>::is_full()={} but {nw} writes succeed", r.is_full());
                        }
                        run.count("bounds_checks_reversed", 1);
                    }
                }
            }
            7 => {
                // pos / seek(pos) restores the read sequence; out-of-range refused
                let p = match &rev {
                    Some(r) => r.pos(),
                    None => cur.pos(),
                };
                log.push("pos".into());
                if p != reference.pos {
                    fail!("C17/pos", "pos()={p}, expected {}", reference.pos);
                }
                let target = if rng.chance(1, 3) { reference.buf.len() + 1 + rng.below(4) as usize } else { rng.usize_in(0, reference.buf.len()) };
                let r = match &mut rev {
                    Some(r) => r.seek(target),
                    None => cur.seek(target),
                };
                log.push(format!("seek({target})"));
                if target > reference.buf.len() {
                    if r.is_ok() {
                        fail!("C17/seek-out-of-range-accepted", "seek({target}) accepted, len {}", reference.buf.len());
                    }
                    let p2 = match &rev {
                        Some(r) => r.pos(),
                        None => cur.pos(),
                    };
                    if p2 != reference.pos {
                        fail!("C17/refused-seek-moved", "refused seek moved pos to {p2}");
                    }
                    run.count("refused_seeks", 1);
                } else {
                    if r.is_err() {
                        fail!("C17/seek-refused", "seek({target}) refused, len {}", reference.buf.len());
                    }
                    reference.pos = target;
                }
            }
            8 => {
                // in-place reversal: observationally a no-op for subsequent reads and writes
                reversed_in_place = true;
                match rev.take() {
                    Some(r) => {
                        cur = r.into_reversed();
                    }
                    None => {
                        let c = std::mem::replace(&mut cur, Cursor::new_at_write_beginning(Vec::new()));
                        rev = Some(c.into_reversed());
                    }
                }
                reference.buf.reverse();
                reference.pos = reference.buf.len() - reference.pos;
                reference.reversed = !reference.reversed;
                log.push("into_reversed".into());
                run.count("in_place_reversals", 1);
            }
            9 => {
                // views and copies
                if rev.is_none() {
                    let v = cur.as_view();
                    let c2 = cur.cloned();
                    if v.pos() != reference.pos || c2.pos() != reference.pos || v.buf() != &reference.buf.as_slice() || c2.buf() != &reference.buf {
                        fail!("C17/views", "as_view()/cloned() differ from the cursor");
                    }
                    let mv = cur.as_mut_view();
                    if mv.pos() != reference.pos {
                        fail!("C17/views", "as_mut_view() has pos {}", mv.pos());
                    }
                    log.push("views".into());
                    // copies: clone(), or clone_from() onto a stale copy from earlier in the history;
                    // the copy then replaces the cursor (reads and writes continue on it)
                    let c3 = clone_via.clone_of(run, rng, &cur);
                    if c3.pos() != reference.pos || c3.buf() != &reference.buf {
                        fail!("C17/views", "a clone has (buf,pos) = ({:?},{}), the cursor ({:?},{})", fmt(c3.buf()), c3.pos(), fmt(&reference.buf), reference.pos);
                    }
                    cur = c3;
                }
            }
            _ => {
                // the other buffer kinds must behave identically from the same (buf,pos)
                if rev.is_none() && kind != 0 {
                    let buf = reference.buf.clone();
                    let pos = reference.pos;
                    let exp_s = if pos == 0 { None } else { Some(buf[pos - 1]) };
                    let exp_q = buf.get(pos).copied();
                    let (gs, gq) = match kind {
                        1 => {
                            let mut a = Cursor::new_at_pos(buf.clone().into_boxed_slice(), pos).unwrap();
                            let mut b = a.clone();
                            (ReadWords::<W, Stack>::read(&mut a).unwrap(), ReadWords::<W, Queue>::read(&mut b).unwrap())
                        }
                        2 => {
                            let mut b1 = buf.clone();
                            let mut b2 = buf.clone();
                            let mut a = Cursor::new_at_pos_mut(&mut b1[..], pos).unwrap();
                            let mut b = Cursor::new_at_pos_mut(&mut b2[..], pos).unwrap();
                            (ReadWords::<W, Stack>::read(&mut a).unwrap(), ReadWords::<W, Queue>::read(&mut b).unwrap())
                        }
                        _ => {
                            let mut a = Cursor::new_at_pos(&buf[..], pos).unwrap();
                            let mut b = a.clone();
                            (ReadWords::<W, Stack>::read(&mut a).unwrap(), ReadWords::<W, Queue>::read(&mut b).unwrap())
                        }
                    };
                    log.push(format!("other_buffer_kind({kind})"));
                    if gs != exp_s || gq != exp_q {
                        fail!("C17/cursor-read", "buffer kind {kind}: reads {:?}/{:?}, expected {:?}/{:?}", gs.map(|x| x.as_u()), gq.map(|x| x.as_u()), exp_s.map(|x| x.as_u()), exp_q.map(|x| x.as_u()));
                    }
                    // write-end constructors
                    {
                        let mut b3 = buf.clone();
                        let l = b3.len();
                        let c1 = Cursor::<W, _>::new_at_write_end_mut(&mut b3[..]);
                        let c2 = Cursor::<W, _>::new_at_write_end(buf.clone());
                        let c3 = Cursor::<W, Vec<W>>::new_at_write_beginning(buf.clone());
                        if c1.pos() != l || c2.pos() != l || c3.pos() != 0 {
                            fail!("C17/pos", "write-end/beginning constructors report pos {} / {} / {}", c1.pos(), c2.pos(), c3.pos());
                        }
                    }
                    // constructors refuse positions beyond the buffer
                    if Cursor::<W, _>::new_at_pos(&buf[..], buf.len() + 1).is_ok() {
                        fail!("C17/new_at_pos", "new_at_pos(len+1) accepted");
                    }
                }
            }
        }
    }
    // final content
    let (buf, pos) = match rev {
        Some(r) => r.0.into_buf_and_pos(),
        None => cur.into_buf_and_pos(),
    };
    if buf != reference.buf || pos != reference.pos {
        fail!("C17/cursor-content", "final (buf,pos) = ({:?},{pos}), expected ({:?},{})", fmt(&buf), fmt(&reference.buf), reference.pos);
    }
    run.count("backend_ops", n as u64);
    if (mixed.0 && mixed.1) || reversed_in_place {
        run.nontrivial();
    }
    run.describe(|| format!("Cursor<{}> {:?}", W::NAME, log));
}

// --------------------------------------------------------------------------------------------
// iterator / callback adapters

struct Unfused<W> {
    items: Vec<Option<Result<W, u8>>>,
    i: usize,
}
impl<W: Copy> Iterator for Unfused<W> {
    type Item = Result<W, u8>;
    fn next(&mut self) -> Option<Self::Item> {
        let r = self.items.get(self.i).copied().flatten();
        self.i += 1;
        r
    }
}

fn adapter_case<W: Num>(run: &mut Run, rng: &mut Rng) {
    run.count("adapter_cases", 1);
    run.h(3 << 60 | W::NBITS as u64);
    // an iterator that yields Some again after None, and errors
    let n = rng.usize_in(0, 12);
    let items: Vec<Option<Result<W, u8>>> = (0..n)
        .map(|_| match rng.below(6) {
            0 => None,
            1 => Some(Err(rng.below(200) as u8)),
            _ => Some(Ok(w::<W>(rng))),
        })
        .collect();
    for it in &items {
        run.h(match it {
            None => 1,
            Some(Err(e)) => 2 + *e as u64,
            Some(Ok(x)) => 1000u64.wrapping_add(x.as_u() as u64),
        });
    }
    let desc = format!("FallibleIteratorReadWords over {:?}", items.iter().map(|x| x.map(|r| r.map(|w| w.as_u()))).collect::<Vec<_>>());
    let mut b = FallibleIteratorReadWords::new(Unfused { items: items.clone(), i: 0 });
    let mut ended = false;
    let mut idx = 0;
    for _ in 0..(n + 3) {
        let r = ReadWords::<W, Queue>::read(&mut b);
        let expected: Result<Option<W>, u8> = if ended {
            Ok(None)
        } else {
            match items.get(idx).copied().flatten() {
                None => {
                    ended = true;
                    Ok(None)
                }
                Some(Ok(x)) => Ok(Some(x)),
                Some(Err(e)) => Err(e),
            }
        };
        idx += 1;
        if r != expected {
            let sig = if ended { "C17/some-after-none" } else { "C17/iterator-adapter" };
            run.violation("backend-contract", sig, format!("{desc} :: read #{idx} returned {:?}, expected {:?}", r.map(|o| o.map(|x| x.as_u())), expected.map(|o| o.map(|x| x.as_u()))));
            return;
        }
    }
    // bounded variant over an exact-size iterator: remaining() counts what is left; into_iter
    // hands back the rest
    {
        let ws: Vec<W> = (0..rng.usize_in(0, 8)).map(|_| w::<W>(rng)).collect();
        let mut b = FallibleIteratorReadWords::new(ws.iter().map(|x| Ok::<W, u8>(*x)));
        let k = rng.usize_in(0, ws.len());
        for i in 0..k {
            if BoundedReadWords::<W, Stack>::remaining(&b) != ws.len() - i {
                run.violation("backend-contract", "C17/remaining", format!("FallibleIteratorReadWords::remaining()={} with {} items left", BoundedReadWords::<W, Stack>::remaining(&b), ws.len() - i));
                return;
            }
            if ReadWords::<W, Stack>::read(&mut b) != Ok(Some(ws[i])) {
                run.violation("backend-contract", "C17/iterator-adapter", "exact-size iterator adapter read wrong word".into());
                return;
            }
        }
        let rest: Vec<W> = b.into_iter().map(|r| r.unwrap()).collect();
        if rest[..] != ws[k..] {
            run.violation("backend-contract", "C17/iterator-adapter", format!("into_iter() after {k} reads yields {:?}, expected {:?}", fmt(&rest), fmt(&ws[k..])));
            return;
        }
    }
    // callback adapters deliver exactly what was written, in order
    let mut sink: Vec<W> = Vec::new();
    let words: Vec<W> = (0..rng.usize_in(0, 10)).map(|_| w::<W>(rng)).collect();
    {
        let mut cb = InfallibleCallbackWriteWords::new(|x: W| sink.push(x));
        for x in &words {
            cb.write(*x).unwrap();
        }
    }
    if sink != words {
        run.violation("backend-contract", "C17/callback-adapter", format!("InfallibleCallbackWriteWords delivered {:?} for {:?}", fmt(&sink), fmt(&words)));
        return;
    }
    let fail_at = rng.usize_in(0, words.len());
    let mut sink2: Vec<W> = Vec::new();
    let mut count = 0usize;
    let mut first_err = None;
    {
        let mut cb = FallibleCallbackWriteWords::new(|x: W| {
            count += 1;
            if count - 1 == fail_at {
                Err(count)
            } else {
                sink2.push(x);
                Ok(())
            }
        });
        for (i, x) in words.iter().enumerate() {
            if let Err(e) = cb.write(*x) {
                first_err = Some((i, e));
                break;
            }
        }
    }
    let exp_err = if fail_at < words.len() { Some((fail_at, fail_at + 1)) } else { None };
    if first_err != exp_err || sink2[..] != words[..fail_at.min(words.len())] {
        run.violation("backend-contract", "C17/callback-adapter", format!("FallibleCallbackWriteWords: error {:?} expected {:?}", first_err, exp_err));
        return;
    }
    run.count("backend_ops", (n + words.len()) as u64);
    run.nontrivial();
    run.describe(|| desc);
}

pub fn case(run: &mut Run, rng: &mut Rng) {
    let k = rng.below(4);
    macro_rules! by_word {
        ($f:ident) => {
            match rng.below(4) {
                0 => $f::<u8>(run, rng),
                1 => $f::<u16>(run, rng),
                2 => $f::<u32>(run, rng),
                _ => $f::<u64>(run, rng),
            }
        };
    }
    match k {
        0 => by_word!(vec_case),
        1 | 2 => by_word!(cursor_case),
        _ => by_word!(adapter_case),
    }
}
