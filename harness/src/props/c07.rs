//! C07 — random access: seeking to a recorded position resumes decoding exactly there.

use crate::num::Num;
use crate::prng::Rng;
use crate::props::c02::describe_msg;
use crate::range_rows;
use crate::rangew::*;
use crate::report::Run;
use crate::table::*;
use constriction::backends::ReadWords;
use constriction::stream::queue::{RangeCoderState, RangeDecoder, RangeEncoder};
use constriction::stream::stack::AnsCoder;
use constriction::stream::Code;
use constriction::{BitArray, Pos, PosSeek, Queue, Seek, Stack, UnwrapInfallible};
use num_traits::AsPrimitive;

fn seek_order(rng: &mut Rng, n_snap: usize) -> (Vec<usize>, bool) {
    let k = rng.usize_in(1, 24.min(n_snap.max(1) * 2));
    let style = rng.below(4);
    let mut v: Vec<usize> = (0..k).map(|_| rng.below(n_snap as u64) as usize).collect();
    match style {
        0 => v.sort_unstable(),
        1 => {
            v.sort_unstable();
            v.reverse();
        }
        2 => {
            // repeats
            let x = v[0];
            v.push(x);
            v.insert(0, x);
        }
        _ => {}
    }
    let monotone = style <= 1;
    (v, !monotone)
}

// --------------------------------------------------------------------------------------------
// ANS

fn ans_decode_after_seek<M: ModelSet, S: Num, B>(
    run: &mut Run,
    dec: &mut AnsCoder<M::W, S, B>,
    zoo: &[M],
    syms: &[(usize, usize)],
    snap: usize,
    limit: usize,
    what: &str,
) -> bool
where
    M::W: Into<S>,
    S: AsPrimitive<M::W>,
    B: ReadWords<M::W, Stack>,
{
    // snapshot `snap` was taken after `snap` pushes: decoding yields syms[snap-1], syms[snap-2], ...
    for j in 0..limit.min(snap) {
        let (mi, sym) = syms[snap - 1 - j];
        match zoo[mi].ans_decode(dec) {
            Ok(g) if g == sym => {}
            other => {
                run.violation(
                    "wrong-symbol-after-seek",
                    "C07/ans-seek-mismatch",
                    format!("{what}: after seeking to snapshot {snap}, pop #{j} gave {other:?}, expected {sym} (W={} S={} n={})", <M::W as Num>::NAME, S::NAME, syms.len()),
                );
                return false;
            }
        }
    }
    true
}

fn ans_row<M: ModelSet, S: Num>(run: &mut Run, rng: &mut Rng)
where
    S: AsPrimitive<M::W> + From<M::W>,
{
    let w = <M::W as Num>::NBITS;
    let s = S::NBITS;
    run.h(1 << 60 | w as u64 * 1000 + s as u64);
    run.count(row_name(w, s), 1);
    run.count("ans_cases", 1);
    let n = rng.usize_in(1, if run.small { 30 } else if run.thorough() { 600 } else { 150 });
    let zk = rng.usize_in(1, 4);
    let zoo: Vec<M> = gen_zoo(rng, zk, if run.small { 8 } else { 40 });
    let mut coder: AnsCoder<M::W, S, Vec<M::W>> = AnsCoder::new();
    let mut syms = Vec::with_capacity(n);
    let mut snaps: Vec<(usize, S)> = vec![coder.pos()];
    for _ in 0..n {
        let mi = rng.below(zoo.len() as u64) as usize;
        let sym = pick_symbol(rng, zoo[mi].cdf());
        zoo[mi].ans_encode(&mut coder, sym).expect("encode");
        syms.push((mi, sym));
        snaps.push(coder.pos());
        run.h(sym as u64 ^ (mi as u64) << 40);
    }
    let bulk_len = coder.bulk().len();
    let (order, nonmono) = seek_order(rng, snaps.len());
    if nonmono {
        run.nontrivial();
    }
    let limit = if rng.bool() { 6 } else { n };
    let path = rng.below(4);
    run.count(["ans_as_seekable", "ans_into_seekable", "ans_vec_truncating", "ans_reversed"][path as usize], 1);
    match path {
        0 | 1 => {
            // Cursor-backed seekable decoders
            macro_rules! go {
                ($dec:expr, $name:expr) => {{
                    let mut dec = $dec;
                    for &si in &order {
                        if rng.chance(1, 6) {
                            // out-of-range position must be refused and must not disturb anything
                            let st = dec.state();
                            let before = dec.pos();
                            let bad = if rng.bool() { bulk_len + 1 } else { usize::MAX };
                            if dec.seek((bad, st)).is_ok() {
                                run.violation("bad-seek-accepted", "C07/out-of-range-seek-accepted", format!("{}: seek to position {bad} > {bulk_len} accepted", $name));
                                return;
                            }
                            if dec.pos().0 != before.0 || dec.pos().1 != before.1 {
                                run.violation("bad-seek-moved", "C07/refused-seek-moved", format!("{}: refused seek changed position/state", $name));
                                return;
                            }
                            run.count("refused_seeks", 1);
                        }
                        if dec.seek(snaps[si]).is_err() {
                            run.violation("seek-refused", "C07/valid-seek-refused", format!("{}: seek to recorded snapshot {si} = {:?} refused (bulk_len={bulk_len})", $name, (snaps[si].0, snaps[si].1.as_u())));
                            return;
                        }
                        run.count("seeks", 1);
                        if rng.chance(1, 5) {
                            continue; // seek without decoding
                        }
                        if !ans_decode_after_seek::<M, S, _>(run, &mut dec, &zoo, &syms, si, limit, $name) {
                            return;
                        }
                    }
                }};
            }
            if path == 0 {
                go!(coder.as_seekable_decoder(), "as_seekable_decoder");
            } else {
                go!(coder.clone().into_seekable_decoder(), "into_seekable_decoder");
            }
        }
        2 => {
            // Vec backend: seek truncates, so only descending positions are within its contract
            let mut order = order;
            order.sort_unstable();
            order.reverse();
            let mut dec = coder.clone();
            let mut at = n; // the decoder currently sits at this snapshot level
            for &si in &order {
                // Vec seeks by truncation: only positions at or below the current level exist
                if si > at {
                    continue;
                }
                if dec.seek(snaps[si]).is_err() {
                    run.violation("seek-refused", "C07/valid-seek-refused", format!("Vec backend: descending seek to snapshot {si} refused (decoder at level {at})"));
                    return;
                }
                run.count("seeks", 1);
                let lim = limit.min(3);
                at = si.saturating_sub(lim);
                if !ans_decode_after_seek::<M, S, _>(run, &mut dec, &zoo, &syms, si, lim, "Vec (truncating) backend") {
                    return;
                }
                // decoding consumed words; re-seek to the same snapshot is no longer guaranteed
            }
            let st = dec.state();
            if dec.seek((usize::MAX, st)).is_ok() {
                run.violation("bad-seek-accepted", "C07/out-of-range-seek-accepted", "Vec backend accepted usize::MAX".into());
                return;
            }
        }
        _ => {
            // reversed compressed data with mirrored positions (documented recipe)
            let mut compressed = coder.clone().into_compressed().unwrap_infallible();
            compressed.reverse();
            let total = compressed.len();
            let mut dec = match AnsCoder::<M::W, S, _>::from_reversed_compressed(compressed) {
                Ok(d) => d,
                Err(_) => {
                    run.violation("import-refused", "C07/from_reversed_compressed-refused", "own export refused".into());
                    return;
                }
            };
            for &si in &order {
                let (p, st) = snaps[si];
                if dec.seek((total - p, st)).is_err() {
                    run.violation("seek-refused", "C07/valid-seek-refused", format!("reversed: seek to mirrored snapshot {si} refused"));
                    return;
                }
                run.count("seeks", 1);
                if !ans_decode_after_seek::<M, S, _>(run, &mut dec, &zoo, &syms, si, limit, "from_reversed_compressed") {
                    return;
                }
            }
            let st = dec.state();
            if dec.seek((total + 1, st)).is_ok() {
                run.violation("bad-seek-accepted", "C07/out-of-range-seek-accepted", "reversed cursor accepted len+1".into());
                return;
            }
        }
    }
    run.count("ans_symbols", n as u64);
    run.describe(|| format!("ANS W={} S={} n={n} path={path} seek order {:?}", <M::W as Num>::NAME, S::NAME, order_preview(&snaps, n)));
}

fn order_preview<S: Num>(snaps: &[(usize, S)], n: usize) -> String {
    format!("{} snapshots, last pos {}", n + 1, snaps.last().map(|x| x.0).unwrap_or(0))
}

// --------------------------------------------------------------------------------------------
// Range

fn range_decode_after_seek<M: ModelSet, S: Num, B>(
    run: &mut Run,
    dec: &mut RangeDecoder<M::W, S, B>,
    msg: &Msg<M>,
    from: usize,
    limit: usize,
    what: &str,
    inverted_at_snapshot: bool,
) -> bool
where
    M::W: Into<S>,
    S: AsPrimitive<M::W>,
    B: ReadWords<M::W, Queue>,
{
    for (j, &(mi, sym)) in msg.syms.iter().enumerate().skip(from).take(limit) {
        match msg.zoo[mi].range_decode(dec) {
            Ok(g) if g == sym => {}
            other => {
                run.violation(
                    "wrong-symbol-after-seek",
                    "C07/range-seek-mismatch",
                    format!(
                        "{what}: after seeking to the snapshot before symbol {from} (taken while inverted: {inverted_at_snapshot}), symbol #{j} gave {other:?}, expected {sym}; W={} S={} {}",
                        <M::W as Num>::NAME, S::NAME, describe_msg(msg)
                    ),
                );
                return false;
            }
        }
    }
    true
}

fn range_row<M: ModelSet, S: Num>(run: &mut Run, rng: &mut Rng)
where
    S: AsPrimitive<M::W> + From<M::W>,
{
    let w = <M::W as Num>::NBITS;
    let s = S::NBITS;
    run.h(2 << 60 | w as u64 * 1000 + s as u64);
    run.count(row_name(w, s), 1);
    run.count("range_cases", 1);
    let n = rng.usize_in(1, if run.small { 30 } else if run.thorough() { 600 } else { 150 });
    let mut enc: Enc<M, S> = RangeEncoder::new();
    let mut msg = Msg::<M> { zoo: Vec::new(), syms: Vec::new() };
    let mut edges = Edges::default();
    let cfg = DriveCfg { n, steer_16: if rng.bool() { 10 } else { 2 }, max_n_symbols: if run.small { 8 } else { 40 }, end_near_16: 1 };
    let mut snaps: Vec<((usize, RangeCoderState<M::W, S>), bool)> = Vec::with_capacity(n + 1);
    let ok = drive(run, rng, &mut enc, &mut msg, None, &mut edges, &cfg, |_, _, e, _, _| {
        snaps.push((e.pos(), num_inverted::<M, S>(e) > 0));
        true
    });
    if !ok {
        return;
    }
    edges.publish(run);
    let inv_snaps = snaps.iter().filter(|x| x.1).count();
    run.count("snapshots_while_inverted", inv_snaps as u64);
    run.count("snapshots", snaps.len() as u64);
    let (order, nonmono) = seek_order(rng, snaps.len());
    if inv_snaps > 0 || nonmono {
        run.nontrivial();
    }
    let limit = if rng.bool() { 8 } else { n };
    let path = rng.below(5);
    run.count(["range_cursor_vec", "range_slice", "range_encoder_decoder", "range_reversed", "range_user_written_source"][path as usize], 1);
    let mut enc2 = enc.clone();
    let words: Vec<M::W> = enc.into_compressed().unwrap_infallible();
    let total = words.len();
    macro_rules! go {
        ($dec:expr, $name:expr) => {
            go!($dec, $name, |p: usize| p)
        };
        ($dec:expr, $name:expr, $map:expr) => {{
            let mut dec = $dec;
            #[allow(clippy::redundant_closure_call)]
            let mappos = $map;
            let mut cur: Option<usize> = Some(0);
            // prefer snapshots taken while inverted
            let mut order = order.clone();
            for (i, s) in snaps.iter().enumerate() {
                if s.1 && order.len() < 40 && rng.chance(1, 3) {
                    let at = rng.below(order.len() as u64 + 1) as usize;
                    order.insert(at, i);
                }
            }
            for &si in &order {
                if rng.chance(1, 6) {
                    let st = dec.state();
                    let bad = if rng.bool() { total + 1 } else { usize::MAX };
                    if dec.seek((bad, st)).is_ok() {
                        run.violation("bad-seek-accepted", "C07/out-of-range-seek-accepted", format!("{}: seek to position {bad} > {total} accepted", $name));
                        return;
                    }
                    run.count("refused_seeks", 1);
                    let _ = &mappos;
                    // a refused seek must not change what comes next
                    if let Some(c) = cur {
                        if c < n {
                            if !range_decode_after_seek(run, &mut dec, &msg, c, 2, concat!($name, " (after a refused seek)"), false) {
                                return;
                            }
                            run.count("decodes_after_refused_seek", 1);
                        }
                    }
                }
                let (snap, inv) = snaps[si];
                let snap = (mappos(snap.0), snap.1);
                if dec.seek(snap).is_err() {
                    run.violation("seek-refused", "C07/valid-seek-refused", format!("{}: seek to recorded snapshot {si} (pos {}) refused, total words {total}", $name, snap.0));
                    return;
                }
                run.count("seeks", 1);
                if inv {
                    run.count("seeks_to_inverted_snapshots", 1);
                }
                if si == n {
                    if !dec.maybe_exhausted() {
                        run.violation("not-exhausted", "C07/final-seek-not-exhausted", format!("{}: after seeking to the encoder's final position maybe_exhausted() is false; {}", $name, describe_msg(&msg)));
                        return;
                    }
                    run.count("seeks_to_final", 1);
                    cur = Some(n);
                    continue;
                }
                if rng.chance(1, 6) {
                    cur = Some(si);
                    continue;
                }
                if !range_decode_after_seek(run, &mut dec, &msg, si, limit, $name, inv) {
                    return;
                }
                cur = Some((si + limit).min(n));
            }
        }};
    }
    match path {
        0 => go!(RangeDecoder::<M::W, S, _>::from_compressed(words.clone()).unwrap_infallible(), "RangeDecoder over Cursor<Vec>"),
        1 => go!(RangeDecoder::<M::W, S, _>::from_compressed(&words[..]).unwrap_infallible(), "RangeDecoder over &[W]"),
        2 => go!(enc2.decoder(), "RangeEncoder::decoder()"),
        4 => {
            // a user-written seekable source that relies on the provided trait defaults
            let src = crate::obsbackend::PlainSeekSource { v: words.clone(), pos: 0 };
            go!(RangeDecoder::<M::W, S, _>::with_backend(src).unwrap_infallible(), "RangeDecoder over a user-written seekable source")
        }
        _ => {
            // reversed compressed data read through Reverse<Cursor>: positions are mirrored
            let mut rv = words.clone();
            rv.reverse();
            let backend = constriction::backends::Reverse(constriction::backends::Cursor::new_at_write_end(rv));
            go!(RangeDecoder::<M::W, S, _>::with_backend(backend).unwrap_infallible(), "RangeDecoder over Reverse<Cursor> (reversed data)", |p: usize| total - p)
        }
    }
    run.count("range_symbols", n as u64);
    run.describe(|| format!("RANGE W={} S={} path={path} {} ; {} snapshots ({} while inverted)", <M::W as Num>::NAME, S::NAME, describe_msg(&msg), snaps.len(), inv_snaps));
}

pub fn case(run: &mut Run, rng: &mut Rng) {
    if rng.chance(2, 5) {
        range_rows!(run, rng, ans_row)
    } else {
        range_rows!(run, rng, range_row)
    }
}

#[allow(dead_code)]
fn _bounds<T: PosSeek + BitArray>() {}
