//! C03 — every constructible entropy model is valid and exactly invertible.
//!
//! Generators here are also used by C05, C09, C10, C18 (diagnostics) and C19.

use crate::dists::*;
use crate::modelcheck::*;
use crate::num::{pow2, Num};
use crate::prng::Rng;
use crate::report::Run;
use constriction::stream::model::*;
use core::fmt::Debug;
use num_traits::{AsPrimitive, NumCast, PrimInt, WrappingAdd, WrappingSub};
use probability::distribution::Distribution;

// ==========================================================================================
// (a) leakily quantised distributions

pub trait SymT:
    PrimInt + WrappingSub + WrappingAdd + Into<f64> + Debug + core::hash::Hash + 'static
{
    const SNAME: &'static str;
}
macro_rules! symt { ($($t:ty),*) => {$( impl SymT for $t { const SNAME: &'static str = stringify!($t); } )*}; }
symt!(i8, i16, i32, u8, u16, u32);

pub fn sym_from<S: SymT>(v: i64) -> S {
    <S as NumCast>::from(v).expect("harness: symbol out of range")
}
pub fn sym_to<S: SymT>(s: S) -> i64 {
    s.to_i64().unwrap()
}

/// Random support [lo, hi] of a symbol type with at most `max_size` symbols (>= 2).
pub fn gen_support<S: SymT>(rng: &mut Rng, max_size: u128) -> (i64, i64) {
    let tmin = sym_to(S::min_value());
    let tmax = sym_to(S::max_value());
    let type_size = (tmax - tmin) as u128 + 1;
    let max_size = max_size.min(type_size);
    let size = match rng.below(8) {
        0 => 2,
        1 => max_size,
        2 => max_size.saturating_sub(1).max(2),
        3 => 3,
        _ => 2 + rng.below128(max_size - 1),
    }
    .clamp(2, max_size);
    let max_lo = tmax - (size as i64 - 1);
    let lo = match rng.below(5) {
        0 => tmin,
        1 => max_lo,
        2 => (-(size as i64) / 2).clamp(tmin, max_lo),
        _ => tmin + rng.below128((max_lo - tmin) as u128 + 1) as i64,
    };
    (lo, lo + size as i64 - 1)
}

pub type QModel<S, Pr, const P: usize> = LeakilyQuantizedDistribution<f64, S, Pr, AnyDist, P>;

/// Is the documented precondition (monotone CDF within [0,1] at the mid points of the support)
/// actually met by this distribution? Used to classify alarms: a third-party CDF that is not
/// monotone in floating point is outside C03's quantifier.
pub fn cdf_precondition_holds(d: &AnyDist, lo: i64, hi: i64) -> Result<(), String> {
    d.reset();
    let n = (hi - lo) as u128 + 1;
    let stride = (n / 200_000).max(1) as i64;
    let mut prev = f64::NEG_INFINITY;
    let mut x = lo;
    while x <= hi {
        for xx in [x as f64 - 0.5, x as f64 + 0.5] {
            let c = d.distribution(xx);
            if !(0.0..=1.0).contains(&c) {
                return Err(format!("cdf({xx}) = {c} outside [0,1]"));
            }
            if c < prev {
                return Err(format!("cdf({xx}) = {c} < previous value {prev}"));
            }
            prev = c;
        }
        x += stride;
    }
    d.reset();
    Ok(())
}

pub struct QCase<S, Pr, const P: usize> {
    pub lo: i64,
    pub hi: i64,
    pub model: QModel<S, Pr, P>,
}

pub fn gen_quantized<S, Pr, const P: usize>(rng: &mut Rng, max_support: u128) -> QCase<S, Pr, P>
where
    S: SymT + AsPrimitive<Pr>,
    Pr: Num + Into<f64>,
{
    let (lo, hi) = gen_support::<S>(rng, pow2(P as u32).min(max_support));
    let quantizer = LeakyQuantizer::<f64, S, Pr, P>::new(sym_from::<S>(lo)..=sym_from::<S>(hi));
    let dist = gen_dist(rng, lo as f64, hi as f64);
    QCase {
        lo,
        hi,
        model: quantizer.quantize(dist),
    }
}

pub fn outside_symbols<S: SymT>(rng: &mut Rng, lo: i64, hi: i64) -> Vec<S> {
    let tmin = sym_to(S::min_value());
    let tmax = sym_to(S::max_value());
    let mut v = Vec::new();
    for c in [lo - 1, hi + 1, lo - 2, hi + 2, tmin, tmax, lo - 256, hi + 256, lo - 65536, hi + 65536] {
        if c >= tmin && c <= tmax && (c < lo || c > hi) {
            v.push(sym_from::<S>(c));
        }
    }
    for _ in 0..4 {
        let c = tmin + rng.below128((tmax - tmin) as u128 + 1) as i64;
        if c < lo || c > hi {
            v.push(sym_from::<S>(c));
        }
    }
    v
}

fn quant_case<S, Pr, const P: usize>(run: &mut Run, rng: &mut Rng)
where
    S: SymT + AsPrimitive<Pr>,
    Pr: Num + Into<f64>,
    f64: AsPrimitive<Pr> + AsPrimitive<S>,
{
    run.count("quantized_models", 1);
    let max_support = if run.small { 40 } else if run.thorough() { 20_000 } else { 3000 };
    let qc = gen_quantized::<S, Pr, P>(rng, max_support);
    let (lo, hi) = (qc.lo, qc.hi);
    run.h(lo as u64);
    run.h(hi as u64 ^ (P as u64) << 48);
    let desc = format!("LeakyQuantizer<f64,{},{},{}>({lo}..={hi}).quantize({})", S::SNAME, Pr::NAME, P, qc.model.inner().describe());
    run.h(crate::props::c03::hash_str(&desc));
    run.note(|| desc.clone());
    let model = &qc.model;
    let result = (|| -> Result<(u64, usize), Bad> {
        let t = table_via_encoder::<_, P>(model, (lo..=hi).map(sym_from::<S>))?;
        model.inner().reset();
        check_outside::<_, P>(model, outside_symbols::<S>(rng, lo, hi).into_iter())?;
        // quantile function: reset the watchdog before every lookup
        let exhaustive = if run.small { 256 } else { 65536 };
        let probes = check_quantiles_with_reset::<S, Pr, P>(model, &t, rng, exhaustive, if run.small { 20 } else { 400 })?;
        let min_p = t.rows.iter().map(|r| r.2).min().unwrap();
        Ok((probes, if min_p == 1 { 1 } else { 0 }))
    })();
    match result {
        Ok((probes, has_min)) => {
            run.count("quantile_probes", probes);
            if has_min == 1 || P as u32 == Pr::NBITS {
                run.nontrivial();
            }
            run.count(if P as u32 == Pr::NBITS { "models_at_full_precision" } else { "models_below_full_precision" }, 1);
        }
        Err(b) => {
            // classify: is the documented CDF precondition met?
            match cdf_precondition_holds(model.inner(), lo, hi) {
                Ok(()) => run.violation("invalid-model", &format!("C03/quantized/{}", b.sig), format!("{desc} :: {}", b.detail)),
                Err(why) => {
                    run.count("third_party_cdf_precondition_violated", 1);
                    let _ = why;
                }
            }
            return;
        }
    }
    run.describe(|| desc);
}

fn check_quantiles_with_reset<S, Pr, const P: usize>(
    model: &QModel<S, Pr, P>,
    table: &Table<S>,
    rng: &mut Rng,
    exhaustive_limit: u128,
    extra: usize,
) -> Result<u64, Bad>
where
    S: SymT + AsPrimitive<Pr>,
    Pr: Num + Into<f64>,
    f64: AsPrimitive<Pr> + AsPrimitive<S>,
{
    // wrap the model so that the CDF-evaluation watchdog is per lookup
    struct W<'a, S, Pr, const P: usize>(&'a QModel<S, Pr, P>);
    impl<S, Pr: Num, const P: usize> EntropyModel<P> for W<'_, S, Pr, P> {
        type Symbol = S;
        type Probability = Pr;
    }
    impl<S, Pr, const P: usize> DecoderModel<P> for W<'_, S, Pr, P>
    where
        S: SymT + AsPrimitive<Pr>,
        Pr: Num + Into<f64>,
        f64: AsPrimitive<Pr> + AsPrimitive<S>,
    {
        fn quantile_function(&self, q: Pr) -> (S, Pr, <Pr as constriction::BitArray>::NonZero) {
            self.0.inner().reset();
            self.0.quantile_function(q)
        }
    }
    check_quantiles::<_, P>(&W(model), table, rng, exhaustive_limit, extra)
}

pub fn hash_str(s: &str) -> u64 {
    let mut h = 0xcbf2_9ce4_8422_2325u64;
    for b in s.bytes() {
        h ^= b as u64;
        h = h.wrapping_mul(0x0000_0100_0000_01B3);
    }
    h
}

macro_rules! quant_dispatch {
    ($run:expr, $rng:expr, $f:ident, [$(($S:ty, $Pr:ty, $P:literal)),+ $(,)?]) => {{
        let combos: &[fn(&mut Run, &mut Rng)] = &[$($f::<$S, $Pr, $P>),+];
        let k = $rng.below(combos.len() as u64) as usize;
        combos[k]($run, $rng)
    }};
}

#[macro_export]
macro_rules! quant_combos {
    ($run:expr, $rng:expr, $f:ident) => {
        quant_dispatch!($run, $rng, $f, [
            (i8, u8, 8), (u8, u8, 8), (i8, u16, 12), (u8, u16, 16), (i16, u16, 12), (i16, u16, 16),
            (i16, u32, 24), (u16, u32, 32), (i32, u16, 12), (i32, u32, 24), (i32, u32, 32),
            (u32, u32, 24), (i32, u8, 8), (i8, u32, 24), (i32, u16, 9), (i32, u8, 4), (u16, u16, 16)
        ])
    };
}
pub(crate) use quant_dispatch;

// ==========================================================================================
// (b) categorical models from float tables

pub trait FloatT:
    num_traits::float::FloatCore + core::iter::Sum<Self> + Into<f64> + Debug + 'static
{
    const FNAME: &'static str;
    const MANT: u32;
    fn from64(x: f64) -> Self;
}
impl FloatT for f32 {
    const FNAME: &'static str = "f32";
    const MANT: u32 = 24;
    fn from64(x: f64) -> f32 {
        x as f32
    }
}
impl FloatT for f64 {
    const FNAME: &'static str = "f64";
    const MANT: u32 = 53;
    fn from64(x: f64) -> f64 {
        x
    }
}

/// Non-negative float table with positive finite (normal) left-to-right sum.
pub fn gen_float_table<F: FloatT>(rng: &mut Rng, max_len: usize) -> Vec<F> {
    let len = match rng.below(6) {
        0 => 2,
        1 => 3,
        _ => rng.usize_in(2, max_len.max(2)),
    };
    let style = rng.below(9);
    let max_exp: f64 = if F::MANT == 24 { 36.0 } else { 290.0 };
    loop {
        let mut v: Vec<F> = (0..len)
            .map(|i| {
                let x = match style {
                    0 => rng.f64(),
                    1 => 10f64.powf((rng.f64() * 2.0 - 1.0) * max_exp),
                    2 => 10f64.powf(-(rng.f64() * max_exp)),
                    3 => {
                        if rng.chance(1, 3) {
                            0.0
                        } else {
                            rng.f64()
                        }
                    }
                    4 => {
                        // one dominant entry, rest far below float resolution
                        if i == len / 2 {
                            1.0
                        } else {
                            10f64.powf(-20.0 - rng.f64() * 15.0)
                        }
                    }
                    5 => {
                        // exponents spread over ~60 bits: tails below the resolution of the sum
                        2f64.powf(-(rng.f64() * 60.0))
                    }
                    6 => {
                        // subnormals and tiny values next to ordinary ones
                        if rng.bool() {
                            if F::MANT == 24 {
                                1e-42
                            } else {
                                1e-310
                            }
                        } else {
                            rng.f64()
                        }
                    }
                    7 => 1.0,
                    _ => (rng.below(5) as f64) * 0.25,
                };
                F::from64(x)
            })
            .collect();
        if style == 3 || style == 8 {
            // make sure at least one entry is positive
            let k = rng.below(len as u64) as usize;
            v[k] = F::from64(0.5 + rng.f64());
        }
        let sum: F = v.iter().copied().sum();
        if sum.is_normal() && sum > F::zero() {
            return v;
        }
    }
}

pub fn table_desc<F: FloatT>(v: &[F]) -> String {
    if v.len() <= 24 {
        format!("{:?}", v)
    } else {
        format!("[{} entries, first {:?} ...]", v.len(), &v[..12])
    }
}

/// The monitor's own recomputation, in F, of the fast-quantisation formula (from the docs:
/// cum_k = floor(sum_{j<k} p_j * scale) + k): does the float rounding push a non-leaky part
/// beyond `free_weight`? This is the root-cause predicate for finding K3.
pub fn float_rounding_reaches_one<F: FloatT>(v: &[F], prec: u32, prob_bits: u32) -> bool {
    let free_exact: u128 = pow2(prec) - v.len() as u128;
    // the library computes free_weight as Probability -> usize -> F
    let free_f = F::from64(free_exact as f64);
    let norm: F = v.iter().copied().sum();
    let scale = free_f / norm;
    let mut cum = F::zero();
    for x in v {
        let nl: f64 = (cum * scale).into();
        // emulate the saturating float -> Probability conversion, then compare exactly
        let nl_int: u128 = if nl.is_nan() || nl <= 0.0 {
            0
        } else if nl >= 3.4e38 {
            u128::MAX
        } else {
            nl as u128
        };
        let nl_int = nl_int.min(crate::num::mask(prob_bits));
        if nl_int > free_exact {
            return true;
        }
        cum = cum + *x;
    }
    false
}

fn check_encdec<M, const P: usize>(
    run: &mut Run,
    rng: &mut Rng,
    model: &M,
    n: usize,
    what: &str,
    sig: &str,
    desc: &str,
) -> Option<Table<usize>>
where
    M: EncoderModel<P, Symbol = usize> + DecoderModel<P>,
    M::Probability: Num,
{
    let r = (|| -> Result<(Table<usize>, u64), Bad> {
        let t = table_via_encoder::<_, P>(model, 0..n)?;
        check_outside::<_, P>(model, [n, n + 1, n + 255, n + 256, n + 65536, usize::MAX, usize::MAX / 2 + 1].into_iter())?;
        let probes = check_quantiles::<_, P>(model, &t, rng, if run.small { 256 } else { 65536 }, if run.small { 20 } else { 1000 })?;
        Ok((t, probes))
    })();
    match r {
        Ok((t, probes)) => {
            run.count("quantile_probes", probes);
            Some(t)
        }
        Err(b) => {
            run.violation("invalid-model", &format!("{sig}/{}", b.sig), format!("{what} {desc} :: {}", b.detail));
            None
        }
    }
}

fn float_case<F, Pr, const P: usize>(run: &mut Run, rng: &mut Rng)
where
    F: FloatT + AsPrimitive<Pr>,
    Pr: Num + AsPrimitive<usize> + AsPrimitive<F>,
    usize: AsPrimitive<Pr> + AsPrimitive<F>,
{
    run.count("float_table_models", 1);
    let cap = (pow2(P as u32) as usize).saturating_sub(2).max(2);
    let max_len = cap.min(if run.small { 12 } else if run.thorough() { 4096 } else { 300 });
    if cap < 2 || pow2(P as u32) < 4 {
        return;
    }
    let v: Vec<F> = gen_float_table(rng, max_len);
    for x in &v {
        let y: f64 = (*x).into();
        run.h(y.to_bits());
    }
    run.h(P as u64 ^ (F::MANT as u64) << 32);
    let desc = format!("<{},{},{}> table {}", Pr::NAME, F::FNAME, P, table_desc(&v));
    let known_rounding = float_rounding_reaches_one(&v, P as u32, Pr::NBITS);
    run.note(|| format!("{desc}{}", if known_rounding { " {{sig:float-rounding-reaches-one}}" } else { "" }));
    let sig_root = if known_rounding { "C03/float-rounding-reaches-one" } else { "C03/categorical-fast" };
    let mut any = false;
    // eager fast
    match ContiguousCategoricalEntropyModel::<Pr, Vec<Pr>, P>::from_floating_point_probabilities_fast(&v, None) {
        Ok(m) => {
            any = true;
            if check_encdec::<_, P>(run, rng, &m, v.len(), "ContiguousCategorical::fast", sig_root, &desc).is_none() {
                return;
            }
            let mv = m.as_view();
            if check_encdec::<_, P>(run, rng, &mv, v.len(), "ContiguousCategorical::fast.as_view()", sig_root, &desc).is_none() {
                return;
            }
        }
        Err(()) => run.count("valid_float_table_rejected", 1),
    }
    // lazy fast
    match LazyContiguousCategoricalEntropyModel::<Pr, F, &[F], P>::from_floating_point_probabilities_fast(&v[..], None) {
        Ok(m) => {
            any = true;
            let sig = if known_rounding { "C03/float-rounding-reaches-one" } else { "C03/categorical-lazy" };
            if check_encdec::<_, P>(run, rng, &m, v.len(), "LazyContiguousCategorical::fast", sig, &desc).is_none() {
                return;
            }
        }
        Err(()) => run.count("valid_float_table_rejected", 1),
    }
    // explicit exact normalisation (documented to be equivalent to None)
    if rng.chance(1, 3) {
        let norm: F = v.iter().copied().sum();
        if let Ok(m) = ContiguousCategoricalEntropyModel::<Pr, Vec<Pr>, P>::from_floating_point_probabilities_fast(&v, Some(norm)) {
            if check_encdec::<_, P>(run, rng, &m, v.len(), "ContiguousCategorical::fast(Some(sum))", sig_root, &desc).is_none() {
                return;
            }
        }
    }
    if any && (P as u32 == Pr::NBITS || known_rounding) {
        run.nontrivial();
    }
    if any {
        let minp = true;
        if minp {
            run.nontrivial();
        }
    }
    run.describe(|| desc);
}

/// perfect quantisation + lookup + non-contiguous variants (Probability <= u32; lookup <= u16)
fn float_case_small<F, Pr, const P: usize>(run: &mut Run, rng: &mut Rng)
where
    F: FloatT + AsPrimitive<Pr>,
    Pr: Num + AsPrimitive<usize> + AsPrimitive<F> + Into<f64> + Into<usize>,
    usize: AsPrimitive<Pr> + AsPrimitive<F>,
    f64: AsPrimitive<Pr>,
{
    run.count("float_table_models_small", 1);
    let cap = (pow2(P as u32) as usize).saturating_sub(2);
    if cap < 2 {
        return;
    }
    let max_len = cap.min(if run.small { 10 } else { 64 });
    let v: Vec<F> = gen_float_table(rng, max_len);
    for x in &v {
        let y: f64 = (*x).into();
        run.h(y.to_bits());
    }
    run.h(P as u64 ^ 0x5A11 << 32);
    let desc = format!("<{},{},{}> table {}", Pr::NAME, F::FNAME, P, table_desc(&v));
    let known_rounding = float_rounding_reaches_one(&v, P as u32, Pr::NBITS);
    run.note(|| format!("{desc}{}", if known_rounding { " {{sig:float-rounding-reaches-one}}" } else { "" }));
    let n = v.len();
    let labels: Vec<i32> = {
        // distinct, unordered labels
        let mut l: Vec<i32> = (0..n as i32).map(|i| i * 7 - 50).collect();
        for i in (1..l.len()).rev() {
            let j = rng.below(i as u64 + 1) as usize;
            l.swap(i, j);
        }
        l
    };
    macro_rules! dec_only {
        ($m:expr, $what:expr, $sig:expr) => {{
            match table_via_decoder::<_, P>(&$m, n + 4) {
                Ok(t) => Some(t),
                Err(b) => {
                    run.violation("invalid-model", &format!("{}/{}", $sig, b.sig), format!("{} {desc} :: {}", $what, b.detail));
                    return;
                }
            }
        }};
    }
    // perfect
    match ContiguousCategoricalEntropyModel::<Pr, Vec<Pr>, P>::from_floating_point_probabilities_perfect(&v) {
        Ok(m) => {
            if check_encdec::<_, P>(run, rng, &m, n, "ContiguousCategorical::perfect", "C03/categorical-perfect", &desc).is_none() {
                return;
            }
            run.count("perfect_models", 1);
            // lookup models obtained by conversion are constructible models too
            let lk = m.to_lookup_decoder_model();
            if let Some(t) = dec_only!(lk, "perfect.to_lookup_decoder_model()", "C03/categorical-lookup-conversion") {
                if t.rows.len() != n {
                    run.violation("invalid-model", "C03/categorical-lookup-conversion/support-mismatch", format!("to_lookup_decoder_model() {desc} :: {} symbols instead of {n}", t.rows.len()));
                    return;
                }
            }
            let glk = m.to_generic_lookup_decoder_model();
            let _ = dec_only!(glk, "perfect.to_generic_lookup_decoder_model()", "C03/categorical-lookup-conversion");
            run.count("lookup_models", 2);
        }
        Err(()) => run.count("valid_float_table_rejected", 1),
    }
    let fast_sig = if known_rounding { "C03/float-rounding-reaches-one" } else { "C03/categorical-fast" };
    // lookup (contiguous)
    if let Ok(m) = ContiguousLookupDecoderModel::<Pr, Vec<Pr>, Box<[Pr]>, P>::from_floating_point_probabilities_fast(&v, None) {
        let t = dec_only!(m, "ContiguousLookup::fast", fast_sig);
        if let Some(t) = t {
            if t.rows.len() != n || t.rows.iter().enumerate().any(|(i, r)| r.0 != i) {
                run.violation("invalid-model", &format!("{fast_sig}/support-mismatch"), format!("ContiguousLookup::fast {desc} :: decodes symbols {:?}", t.rows.iter().map(|r| r.0).take(20).collect::<Vec<_>>()));
                return;
            }
        }
        run.count("lookup_models", 1);
    }
    if let Ok(m) = ContiguousLookupDecoderModel::<Pr, Vec<Pr>, Box<[Pr]>, P>::from_floating_point_probabilities_perfect(&v) {
        let _ = dec_only!(m, "ContiguousLookup::perfect", "C03/categorical-perfect");
        run.count("lookup_models", 1);
    }
    // non-contiguous decoder / encoder / lookup
    if let Ok(m) = NonContiguousCategoricalDecoderModel::<i32, Pr, Vec<(Pr, i32)>, P>::from_symbols_and_floating_point_probabilities_fast(labels.iter().copied(), &v, None) {
        if let Some(t) = dec_only!(m, "NonContiguousDecoder::fast", fast_sig) {
            if t.rows.iter().map(|r| r.0).collect::<Vec<_>>() != labels {
                run.violation("invalid-model", &format!("{fast_sig}/support-mismatch"), format!("NonContiguousDecoder::fast {desc} :: symbols differ from the labels"));
                return;
            }
        }
    }
    if let Ok(m) = NonContiguousCategoricalEncoderModel::<i32, Pr, P>::from_symbols_and_floating_point_probabilities_fast(labels.iter().copied(), &v, None) {
        match table_via_encoder::<_, P>(&m, labels.iter().copied()) {
            Ok(_) => {
                if let Err(b) = check_outside::<_, P>(&m, [i32::MIN, i32::MAX, -51, 1_000_000].into_iter()) {
                    run.violation("invalid-model", &format!("{fast_sig}/{}", b.sig), format!("NonContiguousEncoder::fast {desc} :: {}", b.detail));
                    return;
                }
            }
            Err(b) => {
                run.violation("invalid-model", &format!("{fast_sig}/{}", b.sig), format!("NonContiguousEncoder::fast {desc} :: {}", b.detail));
                return;
            }
        }
    }
    if let Ok(m) = NonContiguousCategoricalDecoderModel::<i32, Pr, Vec<(Pr, i32)>, P>::from_symbols_and_floating_point_probabilities_perfect(labels.iter().copied(), &v) {
        let _ = dec_only!(m, "NonContiguousDecoder::perfect", "C03/categorical-perfect");
    }
    if let Ok(m) = NonContiguousCategoricalEncoderModel::<i32, Pr, P>::from_symbols_and_floating_point_probabilities_perfect(labels.iter().copied(), &v) {
        if let Err(b) = table_via_encoder::<_, P>(&m, labels.iter().copied()) {
            run.violation("invalid-model", &format!("C03/categorical-perfect/{}", b.sig), format!("NonContiguousEncoder::perfect {desc} :: {}", b.detail));
            return;
        }
    }
    if let Ok(m) = NonContiguousLookupDecoderModel::<i32, Pr, Vec<(Pr, i32)>, Box<[Pr]>, P>::from_symbols_and_floating_point_probabilities_fast(labels.iter().copied(), &v, None) {
        let _ = dec_only!(m, "NonContiguousLookup::fast", fast_sig);
        run.count("lookup_models", 1);
    }
    if let Ok(m) = NonContiguousLookupDecoderModel::<i32, Pr, Vec<(Pr, i32)>, Box<[Pr]>, P>::from_symbols_and_floating_point_probabilities_perfect(labels.iter().copied(), &v) {
        let _ = dec_only!(m, "NonContiguousLookup::perfect", "C03/categorical-perfect");
    }
    run.nontrivial();
    run.describe(|| desc);
}

// ==========================================================================================
// (c) fixed-point tables, (d) uniform models

pub fn gen_fixed_probs(rng: &mut Rng, prec: u32, max_n: usize) -> Vec<u128> {
    let cdf = crate::table::gen_cdf(rng, prec, max_n);
    cdf.windows(2).map(|w| w[1] - w[0]).collect()
}

fn fixed_case<Pr, const P: usize>(run: &mut Run, rng: &mut Rng)
where
    Pr: Num,
{
    run.count("fixed_point_models", 1);
    let probs_u = gen_fixed_probs(rng, P as u32, if run.small { 10 } else { 300 });
    let probs: Vec<Pr> = probs_u.iter().map(|&p| Pr::of(p)).collect();
    let n = probs.len();
    for p in &probs_u {
        run.h128(*p);
    }
    run.h(P as u64 ^ 0xF1 << 40);
    let desc = format!("<{},{}> fixed-point probabilities {:?}", Pr::NAME, P, if n <= 30 { probs_u.clone() } else { probs_u[..30].to_vec() });
    run.note(|| desc.clone());
    match ContiguousCategoricalEntropyModel::<Pr, Vec<Pr>, P>::from_nonzero_fixed_point_probabilities(probs.iter(), false) {
        Ok(m) => {
            if let Some(t) = check_encdec::<_, P>(run, rng, &m, n, "from_nonzero_fixed_point_probabilities", "C03/fixed-point", &desc) {
                let got: Vec<u128> = t.rows.iter().map(|r| r.2).collect();
                if got != probs_u {
                    run.violation("invalid-model", "C03/fixed-point/probabilities-changed", format!("{desc} :: model has {:?}", got));
                    return;
                }
            } else {
                return;
            }
        }
        Err(()) => {
            run.count("valid_fixed_table_rejected", 1);
        }
    }
    // infer last
    match ContiguousCategoricalEntropyModel::<Pr, Vec<Pr>, P>::from_nonzero_fixed_point_probabilities(probs[..n - 1].iter(), true) {
        Ok(m) => {
            if check_encdec::<_, P>(run, rng, &m, n, "from_nonzero_fixed_point_probabilities(infer_last)", "C03/fixed-point", &desc).is_none() {
                return;
            }
        }
        Err(()) => run.count("valid_infer_last_rejected", 1),
    }
    if P as u32 == Pr::NBITS {
        run.nontrivial();
    }
    if probs_u.contains(&1) {
        run.nontrivial();
    }
    run.describe(|| desc);
}

fn uniform_case<Pr, const P: usize>(run: &mut Run, rng: &mut Rng)
where
    Pr: Num + AsPrimitive<usize>,
    usize: AsPrimitive<Pr>,
{
    run.count("uniform_models", 1);
    let total = pow2(P as u32).min(usize::MAX as u128) as usize;
    let cap = if run.small { 50 } else { 70000 };
    let range = match rng.below(6) {
        0 => 2,
        1 => total.min(cap),
        2 => (total - 1).max(2).min(cap),
        3 => 3,
        _ => rng.usize_in(2, total.min(cap)),
    };
    run.h(range as u64 ^ (P as u64) << 48 ^ 0xAB << 56);
    let m = UniformModel::<Pr, P>::new(range);
    let desc = format!("UniformModel::<{},{}>::new({range})", Pr::NAME, P);
    run.note(|| desc.clone());
    if check_encdec::<_, P>(run, rng, &m, range, "UniformModel", "C03/uniform", &desc).is_none() {
        return;
    }
    if P as u32 == Pr::NBITS || range == total {
        run.nontrivial();
    }
    run.describe(|| desc);
}

pub fn case(run: &mut Run, rng: &mut Rng) {
    match rng.below(10) {
        0..=3 => quant_combos!(run, rng, quant_case),
        4 | 5 => {
            let combos: &[fn(&mut Run, &mut Rng)] = &[
                float_case::<f64, u8, 8>,
                float_case::<f64, u16, 12>,
                float_case::<f64, u16, 16>,
                float_case::<f64, u32, 24>,
                float_case::<f64, u32, 32>,
                float_case::<f32, u16, 12>,
                float_case::<f32, u32, 20>,
                float_case::<f32, u32, 24>,
                float_case::<f32, u32, 32>,
                float_case::<f64, u64, 40>,
                float_case::<f64, u64, 53>,
                float_case::<f64, u64, 64>,
                float_case::<f32, u8, 4>,
            ];
            let k = rng.below(combos.len() as u64) as usize;
            combos[k](run, rng)
        }
        6 | 7 => {
            let combos: &[fn(&mut Run, &mut Rng)] = &[
                float_case_small::<f64, u8, 8>,
                float_case_small::<f64, u16, 12>,
                float_case_small::<f32, u16, 12>,
                float_case_small::<f64, u16, 16>,
                float_case_small::<f32, u8, 6>,
            ];
            let k = rng.below(combos.len() as u64) as usize;
            combos[k](run, rng)
        }
        8 => {
            let combos: &[fn(&mut Run, &mut Rng)] = &[
                fixed_case::<u8, 3>,
                fixed_case::<u8, 8>,
                fixed_case::<u16, 12>,
                fixed_case::<u16, 16>,
                fixed_case::<u32, 24>,
                fixed_case::<u32, 32>,
                fixed_case::<u64, 64>,
            ];
            let k = rng.below(combos.len() as u64) as usize;
            combos[k](run, rng)
        }
        _ => {
            let combos: &[fn(&mut Run, &mut Rng)] = &[
                uniform_case::<u8, 4>,
                uniform_case::<u8, 8>,
                uniform_case::<u16, 12>,
                uniform_case::<u16, 16>,
                uniform_case::<u32, 24>,
                uniform_case::<u32, 32>,
                uniform_case::<u64, 40>,
            ];
            let k = rng.below(combos.len() as u64) as usize;
            combos[k](run, rng)
        }
    }
}
