//! C11 — range-coded data is unaffected by whatever words follow it.
//!
//! Oracle 1: sequence equality when decoding `sealed ++ suffix` for hostile suffixes.
//! Oracle 2 (analytic side-oracle, from the encoder's final public state): the k seal words pin
//! the interval iff `[V, V + 2^(S-kW)) ⊆ [lower, lower+range)`, with V the seal words placed in
//! the top k words of the decoder's window. It says for every message whether *some* suffix
//! could break it, and classifies the root cause of a failure.

use crate::num::{mask, pow2, Num};
use crate::prng::Rng;
use crate::props::c01::words_u128;
use crate::props::c02::{decode_check, describe_msg};
use crate::range_rows;
use crate::rangew::*;
use crate::refimpl::add_mod;
use crate::report::Run;
use crate::table::*;
use constriction::backends::Cursor;
use constriction::stream::queue::{RangeDecoder, RangeEncoder};
use constriction::UnwrapInfallible;
use num_traits::AsPrimitive;

fn encode_one<M: ModelSet, S: Num>(
    run: &mut Run,
    rng: &mut Rng,
    enc: &mut Enc<M, S>,
    n: usize,
    end_near: u64,
) -> Option<(Msg<M>, Edges)>
where
    M::W: Into<S>,
    S: AsPrimitive<M::W>,
{
    let mut msg = Msg::<M> { zoo: Vec::new(), syms: Vec::new() };
    let mut edges = Edges::default();
    let cfg = DriveCfg { n, steer_16: if rng.bool() { 8 } else { 1 }, max_n_symbols: if run.small { 8 } else { 32 }, end_near_16: end_near };
    if !drive(run, rng, enc, &mut msg, None, &mut edges, &cfg, |_, _, _, _, _| true) {
        return None;
    }
    Some((msg, edges))
}

fn case_row<M: ModelSet, S: Num>(run: &mut Run, rng: &mut Rng)
where
    M::W: Into<S>,
    S: AsPrimitive<M::W>,
{
    let w = <M::W as Num>::NBITS;
    let s = S::NBITS;
    run.h(w as u64 * 1000 + s as u64);
    run.count(row_name(w, s), 1);
    let max_len = if run.small { 20 } else if run.thorough() { 120 } else { 40 };
    // (one message in 40 is long enough for the adversary to pile up dozens of held-back words)
    let n = if !run.small && rng.chance(1, 40) { rng.usize_in(60, 130) } else { rng.usize_in(1, max_len) };

    // optional non-empty prefix already in the sink ("started on a sink that already holds data")
    let prefix: Vec<M::W> = if rng.chance(1, 4) {
        crate::props::c01::gen_words(rng, 5, false)
    } else {
        Vec::new()
    };
    let mut enc: Enc<M, S> = RangeEncoder::with_backend(prefix.clone());
    if rng.chance(1, 3) {
        // somebody looks at the sink before the new message starts; what is there must stay there
        for _ in 0..rng.usize_in(1, 3) {
            match rng.below(3) {
                0 => {
                    let _ = enc.get_compressed().len();
                }
                1 => {
                    let _ = enc.decoder().maybe_exhausted();
                }
                _ => {
                    let _ = (enc.num_words(), enc.num_bits(), enc.is_empty());
                }
            }
        }
        if enc.bulk()[..] != prefix[..] {
            run.violation("prefix-changed", "C11/prefix-changed-by-peek", format!("W={} S={} a fresh encoder over the sink {:?} was inspected; the sink now holds {:?}", <M::W as Num>::NAME, S::NAME, words_u128(&prefix), words_u128(enc.bulk())));
            return;
        }
        run.count("peeks_before_first_symbol", 1);
    }
    let Some((msg, edges)) = encode_one::<M, S>(run, rng, &mut enc, n, 12) else { return };
    edges.publish(run);
    let (lower, range) = lower_range::<M, S>(&enc);
    let ninv = num_inverted::<M, S>(&enc);
    let before_seal = enc.bulk().len();
    let sealed: Vec<M::W> = enc.into_compressed().unwrap_infallible();
    // number of seal words proper (1, or the point word padded with zero words)
    let Some(k) = sealed.len().checked_sub(before_seal + ninv).filter(|&k| k >= 1) else {
        run.violation("suffix-changes-decoding", "C11/sealed-output-too-short", format!("W={} S={} message {}: {} words were written before sealing and {ninv} were held back, but the sealed output has only {} words", <M::W as Num>::NAME, S::NAME, describe_msg(&msg), before_seal, sealed.len()));
        return;
    };
    run.count(if k >= 2 { "seal_two_words" } else { "seal_one_word" }, 1);

    // ---- analytic side-oracle
    let mut v: u128 = 0;
    for j in 0..k {
        v |= sealed[sealed.len() - k + j].as_u() << (s - (j as u32 + 1) * w);
    }
    let rest_bits = s - k as u32 * w;
    let dv = v.wrapping_sub(lower) & mask(s);
    let pinned = match dv.checked_add(pow2_or_zero(rest_bits)) {
        Some(x) => x <= range,
        None => false,
    };
    let (upper, _) = add_mod(lower, range, s);
    let frac = upper & (pow2(s - w) - 1);
    if k >= 2 || frac < 16 {
        run.nontrivial();
    }
    if !pinned {
        run.count("side_oracle_unpinned", 1);
    }
    let wide = s > 2 * w;
    let known_shape = wide && k == 2 && sealed[sealed.len() - 1].as_u() == 0 && !pinned;

    // ---- suffixes
    let mut suffixes: Vec<(String, Vec<M::W>)> = Vec::new();
    let ones = <M::W as Num>::of(mask(w));
    suffixes.push(("all-ones".into(), vec![ones; (s / w) as usize + 3]));
    suffixes.push(("zeros".into(), vec![<M::W as Num>::of(0); (s / w) as usize + 1]));
    suffixes.push(("random".into(), (0..rng.usize_in(1, 8)).map(|_| <M::W as Num>::of(rng.edgy(w))).collect()));
    suffixes.push(("one-then-ones".into(), {
        let mut t = vec![<M::W as Num>::of(1)];
        t.extend(vec![ones; 4]);
        t
    }));
    // another sealed message stored back to back
    let second: Option<(Msg<M>, Vec<M::W>)> = {
        let mut e2: Enc<M, S> = RangeEncoder::new();
        let n2 = rng.usize_in(1, 12);
        encode_one::<M, S>(run, rng, &mut e2, n2, 0).map(|(m2, _)| (m2, e2.into_compressed().unwrap_infallible()))
    };
    if let Some((_, w2)) = &second {
        suffixes.push(("second-message".into(), w2.clone()));
    }

    let mut all_ones_failed = false;
    for (name, suf) in &suffixes {
        let mut data: Vec<M::W> = sealed.clone();
        data.extend_from_slice(suf);
        let cursor = Cursor::new_at_pos(data.clone(), prefix.len()).unwrap();
        let mut dec = RangeDecoder::<M::W, S, _>::with_backend(cursor).unwrap_infallible();
        // decode quietly first to classify; only then report
        let mut ok = true;
        let mut bad_at = 0usize;
        let mut got_desc = String::new();
        for (i, &(mi, sym)) in msg.syms.iter().enumerate() {
            match msg.zoo[mi].range_decode(&mut dec) {
                Ok(g) if g == sym => {}
                other => {
                    ok = false;
                    bad_at = i;
                    got_desc = format!("{other:?}");
                    break;
                }
            }
        }
        run.count("suffix_decodes", 1);
        if !ok {
            if name == "all-ones" {
                all_ones_failed = true;
            }
            let sig = if known_shape { "C11/seal-2w-wide-state" } else { "C11/suffix-changes-decoding" };
            run.violation(
                "suffix-changes-decoding",
                sig,
                format!(
                    "W={} S={} prefix={:?} message {} sealed={:?} (k={k} seal words, final lower={lower:#x} range={range:#x}, side-oracle pinned={pinned}) ++ suffix '{name}' {:?}: symbol #{bad_at} decoded as {got_desc}, encoded {}",
                    <M::W as Num>::NAME, S::NAME, words_u128(&prefix), describe_msg(&msg), words_u128(&sealed), words_u128(suf), msg.syms[bad_at].1
                ),
            );
            return;
        }
        if name == "second-message" {
            // back-to-back storage: the second message must decode from where the first ended
            if let Some((m2, _)) = &second {
                let c2 = Cursor::new_at_pos(data.clone(), sealed.len()).unwrap();
                let mut d2 = RangeDecoder::<M::W, S, _>::with_backend(c2).unwrap_infallible();
                if !decode_check(run, &mut d2, m2, 0, "second of two back-to-back messages", "C11") {
                    return;
                }
                run.count("back_to_back", 1);
            }
        }
    }
    if !pinned && !all_ones_failed {
        // the side-oracle predicted a breaking suffix but all-ones did not break it: the oracle
        // (mine) would be wrong — surface it instead of hiding it
        run.violation(
            "oracle-disagreement",
            "C11/harness-side-oracle-disagrees",
            format!("side-oracle says unpinned but the all-ones suffix decoded fine: W={w} S={s} lower={lower:#x} range={range:#x} sealed={:?}", words_u128(&sealed)),
        );
        return;
    }
    run.count("messages", 1);
    run.describe(|| format!("W={} S={} prefix={:?} {} sealed={:?} k={k} pinned={pinned}", <M::W as Num>::NAME, S::NAME, words_u128(&prefix), describe_msg(&msg), words_u128(&sealed)));
}

fn pow2_or_zero(bits: u32) -> u128 {
    if bits >= 128 {
        0
    } else {
        pow2(bits)
    }
}

pub fn case(run: &mut Run, rng: &mut Rng) {
    range_rows!(run, rng, case_row)
}
