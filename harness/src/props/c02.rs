//! C02 — Range coder round trip (sealed stream decodes to exactly the encoded symbols).
//!
//! Monitors: sequence equality through five decoder constructions, lock-step reference
//! (carry-propagating) range coder on the sealed words, encoder invariant range >= 2^(S-W)
//! after every step, decoder invariant point - lower < range after every step, empty message
//! => no words, maybe_exhausted() after the last symbol.

use crate::num::{pow2, Num};
use crate::prng::Rng;
use crate::props::c01::words_u128;
use crate::rangew::*;
use crate::range_rows;
use crate::refimpl::{add_mod, RefRange};
use crate::report::Run;
use crate::table::*;
use constriction::backends::{FallibleIteratorReadWords, ReadWords};
use constriction::stream::queue::{RangeDecoder, RangeEncoder};
use constriction::{NonZeroBitArray, Queue, UnwrapInfallible};
use num_traits::AsPrimitive;

/// Decode the whole message from `dec`, checking every symbol. Returns false on violation.
pub fn decode_check<M: ModelSet, S: Num, B>(
    run: &mut Run,
    dec: &mut RangeDecoder<M::W, S, B>,
    msg: &Msg<M>,
    from: usize,
    what: &str,
    sig_prefix: &str,
) -> bool
where
    M::W: Into<S>,
    S: AsPrimitive<M::W>,
    B: ReadWords<M::W, Queue>,
{
    for (i, &(mi, sym)) in msg.syms.iter().enumerate().skip(from) {
        match msg.zoo[mi].range_decode(dec) {
            Ok(g) if g == sym => {}
            Ok(g) => {
                run.violation(
                    "wrong-symbol",
                    &format!("{sig_prefix}/decode-mismatch"),
                    format!(
                        "{what}: symbol #{i} decoded as {g}, encoded {sym} (P={}, cdf={:?}); W={} S={} n={}",
                        msg.zoo[mi].prec(),
                        msg.zoo[mi].cdf(),
                        <M::W as Num>::NAME,
                        S::NAME,
                        msg.syms.len()
                    ),
                );
                return false;
            }
            Err(e) => {
                run.violation(
                    "decode-error",
                    &format!("{sig_prefix}/decode-error"),
                    format!("{what}: symbol #{i} failed with {e:?}; W={} S={}", <M::W as Num>::NAME, S::NAME),
                );
                return false;
            }
        }
    }
    true
}

pub fn describe_msg<M: ModelSet>(msg: &Msg<M>) -> String {
    let v: Vec<String> = msg
        .syms
        .iter()
        .take(40)
        .map(|&(mi, s)| {
            let (c, p) = msg.zoo[mi].cp(s);
            format!("(P={},cum={},p={})", msg.zoo[mi].prec(), c, p)
        })
        .collect();
    format!("n={} [{}{}]", msg.syms.len(), v.join(","), if msg.syms.len() > 40 { ",..." } else { "" })
}

/// Classify the seal from the encoder's public state: (inverted?, wraps?, two_words?)
pub fn seal_class<M: ModelSet, S: Num>(enc: &Enc<M, S>) -> (bool, bool, bool)
where
    M::W: Into<S>,
    S: AsPrimitive<M::W>,
{
    let w = <M::W as Num>::NBITS;
    let s = S::NBITS;
    let (lower, range) = lower_range::<M, S>(enc);
    let (point, wraps) = add_mod(lower, pow2(s - w) - 1, s);
    let (upper, _) = add_mod(lower, range, s);
    let two = (upper >> (s - w)) == (point >> (s - w));
    (num_inverted::<M, S>(enc) > 0, wraps, two)
}

pub fn count_seal(run: &mut Run, cls: (bool, bool, bool)) {
    match cls {
        (true, true, _) => run.count("seal_inverted_wrap", 1),
        (true, false, _) => run.count("seal_inverted_nowrap", 1),
        _ => {}
    }
    if cls.2 {
        run.count("seal_two_words", 1)
    } else {
        run.count("seal_one_word", 1)
    }
}

fn case_row<M: ModelSet, S: Num>(run: &mut Run, rng: &mut Rng)
where
    M::W: Into<S>,
    S: AsPrimitive<M::W>,
{
    let w = <M::W as Num>::NBITS;
    let s = S::NBITS;
    run.h(w as u64 * 1000 + s as u64);
    run.count(row_name(w, s), 1);
    let max_len = if run.small { 40 } else if run.thorough() { 2000 } else { 400 };
    let n = match rng.below(10) {
        0 => 0,
        1 => 1,
        2 => rng.usize_in(2, 6),
        _ => rng.usize_in(0, max_len),
    };
    let mut enc: Enc<M, S> = if rng.bool() { RangeEncoder::new() } else { Default::default() };
    let reuse_after_clear = rng.chance(1, 8);
    if reuse_after_clear {
        // documented: clear() "resets the coder to the same state as new()". Encode a steered
        // throw-away message first, clear, then run the real case on the same encoder.
        let mut junk = Msg::<M> { zoo: Vec::new(), syms: Vec::new() };
        let mut e0 = Edges::default();
        let cfg0 = DriveCfg { n: rng.usize_in(1, 60), steer_16: 12, max_n_symbols: 16, end_near_16: 0 };
        if !drive(run, rng, &mut enc, &mut junk, None, &mut e0, &cfg0, |_, _, _, _, _| true) {
            return;
        }
        if num_inverted::<M, S>(&enc) > 0 {
            run.count("clear_while_inverted", 1);
        }
        enc.clear();
        run.count("clear_reuse", 1);
    }
    let mut reference = RefRange::new(w, s);
    let mut msg = Msg::<M> { zoo: Vec::new(), syms: Vec::new() };
    let mut edges = Edges::default();
    let cfg = DriveCfg { n, steer_16: if rng.bool() { 10 } else { 2 }, max_n_symbols: if run.small { 8 } else { 48 }, end_near_16: 2 };
    // looking at the data while encoding (temporary view / temporary decoder) is part of
    // ordinary use and must not change the words that are finally produced
    let peek_16: u64 = if rng.chance(1, 4) { 3 } else { 0 };
    let mut peeks = 0u64;
    if !drive(run, rng, &mut enc, &mut msg, Some(&mut reference), &mut edges, &cfg, |_, rng, e, _, _| {
        if peek_16 > 0 && rng.below(16) < peek_16 {
            peeks += 1;
            if rng.bool() {
                let g = e.get_compressed();
                let _ = g.len();
            } else {
                let d = e.decoder();
                let _ = d.maybe_exhausted();
            }
        }
        true
    }) {
        return;
    }
    run.count("peeks_while_encoding", peeks);
    edges.publish(run);
    if edges.steps_inverted > 0 {
        run.nontrivial();
    }
    let cls = seal_class::<M, S>(&enc);
    if n > 0 {
        count_seal(run, cls);
    }
    // a copy of the finished encoder, taken with clone() or with clone_from() onto a fresh one
    let enc_twin = if rng.bool() {
        let mut t: Enc<M, S> = RangeEncoder::new();
        t.clone_from(&enc);
        run.count("encoder_copies_via_clone_from", 1);
        t
    } else {
        enc.clone()
    };
    let words: Vec<M::W> = enc.into_compressed().unwrap_infallible();
    let wu = words_u128(&words);
    run.count("symbols", n as u64);
    run.count("words", words.len() as u64);
    if n == 0 && !words.is_empty() {
        run.violation("empty-message", "C02/empty-message-has-words", format!("empty message produced words {wu:?}"));
        return;
    }
    let exp = reference.sealed();
    if wu != exp {
        let sig = if reuse_after_clear { "C02/clear-does-not-reset" } else { "C02/ref-diverges" };
        run.violation(
            "reference-divergence",
            sig,
            format!(
                "W={} S={} reuse_after_clear={reuse_after_clear} message {} :: library words {:?} vs reference {:?}",
                <M::W as Num>::NAME, S::NAME, describe_msg(&msg), wu, exp
            ),
        );
        return;
    }
    run.maximum("longest_reference_carry_ripple", reference.longest_ripple as f64);
    run.count("reference_carries", reference.carries);

    // ---- decode through several constructions
    let which = rng.below(8);
    let ok = match which {
        0 => {
            let mut d = RangeDecoder::<M::W, S, _>::from_compressed(words.clone()).unwrap_infallible();
            decode_check(run, &mut d, &msg, 0, "from_compressed(Vec)", "C02") && check_exhausted(run, d.maybe_exhausted(), &msg, &wu)
        }
        1 => {
            // borrowed cursor: cheap to clone => check the decoder invariant after every step
            let mut d = RangeDecoder::<M::W, S, _>::from_compressed(&words[..]).unwrap_infallible();
            let mut ok = true;
            for (i, &(mi, sym)) in msg.syms.iter().enumerate() {
                match msg.zoo[mi].range_decode(&mut d) {
                    Ok(g) if g == sym => {}
                    other => {
                        run.violation("wrong-symbol", "C02/decode-mismatch", format!("from_compressed(&[W]): symbol #{i}: got {other:?}, want {sym}; message {} words {:?}", describe_msg(&msg), wu));
                        ok = false;
                        break;
                    }
                }
                let (_, st, point) = d.clone().into_raw_parts();
                let diff = point.as_u().wrapping_sub(st.lower().as_u()) & crate::num::mask(s);
                if diff >= st.range().get().as_u() || st.range().get().as_u() < pow2(s - w) {
                    run.violation("invariant", "C02/decoder-invariant", format!("after symbol #{i}: point-lower={diff:#x} range={:#x} (W={w},S={s})", st.range().get().as_u()));
                    ok = false;
                    break;
                }
            }
            run.count("decoder_invariant_checks", msg.syms.len() as u64);
            ok && check_exhausted(run, d.maybe_exhausted(), &msg, &wu)
        }
        2 => {
            let it = words.iter().map(|x| Ok::<M::W, ()>(*x));
            let mut d = RangeDecoder::<M::W, S, _>::with_backend(FallibleIteratorReadWords::new(it)).unwrap();
            decode_check(run, &mut d, &msg, 0, "iterator backend", "C02")
        }
        3 => {
            let mut e2 = enc_twin.clone();
            let mut d = e2.decoder();
            decode_check(run, &mut d, &msg, 0, "RangeEncoder::decoder()", "C02") && check_exhausted(run, d.maybe_exhausted(), &msg, &wu)
        }
        4 => {
            // a decoder suspended into its raw parts and resumed from them at arbitrary symbol
            // boundaries (also while its interval wraps around the top of State)
            let mut d = RangeDecoder::<M::W, S, _>::from_compressed(words.clone()).unwrap_infallible();
            let mut ok = true;
            let mut resumes = 0u64;
            for (i, &(mi, sym)) in msg.syms.iter().enumerate() {
                if rng.chance(1, 3) {
                    let (bulk, st, point) = d.into_raw_parts();
                    let wrapped = point.as_u() < st.lower().as_u();
                    d = match RangeDecoder::from_raw_parts(bulk, st, point) {
                        Ok(d) => d,
                        Err(_) => {
                            run.violation("resume", "C02/resume-refused", format!("before symbol #{i}: from_raw_parts refuses the parts that into_raw_parts just returned (point below lower: {wrapped}); message {} words {:?}", describe_msg(&msg), wu));
                            return;
                        }
                    };
                    resumes += 1;
                    if wrapped {
                        run.count("decoder_resumes_while_wrapped", 1);
                    }
                }
                match msg.zoo[mi].range_decode(&mut d) {
                    Ok(g) if g == sym => {}
                    other => {
                        run.violation("wrong-symbol", "C02/decode-mismatch", format!("suspended/resumed decoder: symbol #{i}: got {other:?}, want {sym}; message {} words {:?}", describe_msg(&msg), wu));
                        ok = false;
                        break;
                    }
                }
            }
            run.count("decoder_resumes", resumes);
            ok && check_exhausted(run, d.maybe_exhausted(), &msg, &wu)
        }
        5 => {
            // for_compressed over a borrowed Vec + the trait form of maybe_exhausted
            let mut d = RangeDecoder::<M::W, S, _>::for_compressed(&words).unwrap_infallible();
            decode_check(run, &mut d, &msg, 0, "for_compressed(&Vec)", "C02")
                && check_exhausted(run, constriction::stream::Decode::<1>::maybe_exhausted(&d) && constriction::stream::Code::decoder_maybe_exhausted::<1>(&d), &msg, &wu)
        }
        6 => {
            // conversion traits: Vec::from(encoder), IntoDecoder, From<RangeEncoder>
            let v: Vec<M::W> = Vec::from(enc_twin.clone());
            if v != words {
                run.violation("conversion", "C02/vec-from-encoder-differs", format!("Vec::from(encoder) = {:?}, into_compressed = {:?}", words_u128(&v), wu));
                return;
            }
            let mut d = <Enc<M, S> as constriction::stream::IntoDecoder<1>>::into_decoder(enc_twin.clone());
            let mut d2: RangeDecoder<M::W, S, _> = enc_twin.into();
            decode_check(run, &mut d, &msg, 0, "IntoDecoder::into_decoder", "C02") && decode_check(run, &mut d2, &msg, 0, "RangeDecoder::from(encoder)", "C02") && check_exhausted(run, d.maybe_exhausted() && d2.maybe_exhausted(), &msg, &wu)
        }
        _ => match enc_twin.into_decoder() {
            Ok(mut d) => decode_check(run, &mut d, &msg, 0, "RangeEncoder::into_decoder()", "C02") && check_exhausted(run, d.maybe_exhausted(), &msg, &wu),
            Err(()) => {
                run.violation("into_decoder", "C02/into_decoder-failed", "into_decoder returned Err".into());
                false
            }
        },
    };
    if !ok {
        return;
    }
    run.describe(|| format!("W={} S={} {} -> words {:?}", <M::W as Num>::NAME, S::NAME, describe_msg(&msg), wu));
}

fn check_exhausted<M: ModelSet>(run: &mut Run, exhausted: bool, msg: &Msg<M>, wu: &[u128]) -> bool {
    if !exhausted {
        run.violation(
            "not-exhausted",
            "C02/not-maybe-exhausted",
            format!("decoder.maybe_exhausted() is false after the last symbol; message {} words {:?}", describe_msg(msg), wu),
        );
        return false;
    }
    true
}

/// Batch encode forms of the range encoder against the per-symbol loop, and the decoding
/// iterators of the range decoder consumed through iterator methods that skip or discard
/// (`count`, `last`, `nth`, `skip`, `step_by`, `fold`): whatever the iterator is asked, it
/// must leave the decoder exactly after the symbols it covered (first in, first out).
fn adaptor_case<W, S, Pr, const P: usize>(run: &mut Run, rng: &mut Rng)
where
    W: Num + Into<S> + AsPrimitive<Pr>,
    S: Num + AsPrimitive<W>,
    Pr: Num + Into<W>,
{
    use constriction::stream::{Decode, Encode};
    run.count("iterator_adaptor_cases", 1);
    run.h(9 << 60 | W::NBITS as u64 * 1000 + S::NBITS as u64 ^ (P as u64) << 20);
    let m = TableModel::<Pr, P>::new(gen_cdf(rng, P as u32, if run.small { 8 } else { 40 }));
    let k = rng.usize_in(2, if run.small { 12 } else { 80 });
    let syms: Vec<usize> = (0..k).map(|_| pick_symbol(rng, &m.cdf)).collect();
    for &x in &syms {
        run.h(x as u64);
    }
    let desc = format!("RANGE W={} S={} P={P} iid message {:?} cdf {:?}", W::NAME, S::NAME, syms, m.cdf);
    run.note(|| desc.clone());
    let mut enc = RangeEncoder::<W, S>::new();
    let form = rng.below(4);
    let r = match form {
        0 => enc.encode_iid_symbols(&syms, &m).map_err(|e| format!("{e:?}")),
        1 => enc.encode_symbols(syms.iter().map(|&x| (x, &m))).map_err(|e| format!("{e:?}")),
        2 => enc.try_encode_symbols(syms.iter().map(|&x| Ok::<_, ()>((x, &m)))).map_err(|e| format!("{e:?}")),
        _ => syms.iter().try_for_each(|&x| enc.encode_symbol(x, &m)).map_err(|e| format!("{e:?}")),
    };
    if let Err(e) = r {
        run.violation("batch-form", "C02/batch-encode-failed", format!("{desc} :: batch encode form {form} failed: {e}"));
        return;
    }
    let mut twin = RangeEncoder::<W, S>::new();
    for &x in &syms {
        twin.encode_symbol(x, &m).expect("twin encode");
    }
    let words = enc.into_compressed().unwrap_infallible();
    if words != twin.into_compressed().unwrap_infallible() {
        run.violation("batch-form", "C02/batch-form-diverges", format!("{desc} :: batch encode form {form} produced other words than the per-symbol loop"));
        return;
    }
    let mut d = RangeDecoder::<W, S, _>::from_compressed(words.clone()).unwrap_infallible();
    let a = rng.usize_in(1, k);
    let kind = rng.below(7);
    macro_rules! fail {
        ($($arg:tt)*) => {{
            run.violation("iterator-adaptor", "C02/iterator-adaptor", format!("{desc} :: first {a} symbols through adaptor kind {kind}: {}", format!($($arg)*)));
            return;
        }};
    }
    match kind {
        0 => {
            let n = d.decode_iid_symbols(a, &m).count();
            if n != a {
                fail!("count() = {n}");
            }
        }
        1 => {
            let l = d.decode_iid_symbols(a, &m).last().map(|r| r.ok());
            if l != Some(Some(syms[a - 1])) {
                fail!("last() = {l:?}, expected {}", syms[a - 1]);
            }
        }
        2 => {
            let x = d.decode_symbols(std::iter::repeat(&m).take(a)).nth(a - 1).map(|r| r.ok());
            if x != Some(Some(syms[a - 1])) {
                fail!("nth({}) = {x:?}, expected {}", a - 1, syms[a - 1]);
            }
        }
        3 => {
            let j = rng.usize_in(0, a);
            let v: Vec<Option<usize>> = d.decode_iid_symbols(a, &m).skip(j).map(|r| r.ok()).collect();
            let e: Vec<Option<usize>> = syms[j..a].iter().map(|&x| Some(x)).collect();
            if v != e {
                fail!("skip({j}) yields {v:?}, expected {e:?}");
            }
        }
        4 => {
            let st = rng.usize_in(2, 3);
            let v: Vec<Option<usize>> = d.try_decode_symbols(std::iter::repeat(Ok::<_, ()>(&m)).take(a)).step_by(st).map(|r| r.ok()).collect();
            let e: Vec<Option<usize>> = syms[..a].iter().step_by(st).map(|&x| Some(x)).collect();
            if v != e {
                fail!("step_by({st}) yields {v:?}, expected {e:?}");
            }
        }
        5 => {
            let n = d.decode_iid_symbols(a, &m).fold(0usize, |acc, _| acc + 1);
            if n != a {
                fail!("fold counted {n}");
            }
        }
        _ => {
            let n = d.decode_symbols(std::iter::repeat(&m).take(a)).enumerate().count();
            if n != a {
                fail!("enumerate().count() = {n}");
            }
        }
    }
    // the decoder now stands after exactly `a` symbols
    let rest: Vec<Option<usize>> = d.decode_iid_symbols(k - a, &m).map(|r| r.ok()).collect();
    let e: Vec<Option<usize>> = syms[a..].iter().map(|&x| Some(x)).collect();
    if rest != e {
        fail!("the symbols after them then decode as {rest:?}, expected {e:?}");
    }
    if !d.maybe_exhausted() {
        fail!("decoder not maybe_exhausted() after all {k} symbols");
    }
    run.nontrivial();
    run.describe(|| desc.clone());
}

pub fn case(run: &mut Run, rng: &mut Rng) {
    if rng.chance(1, 6) {
        let combos: &[fn(&mut Run, &mut Rng)] = &[
            adaptor_case::<u8, u16, u8, 8>,
            adaptor_case::<u8, u32, u8, 5>,
            adaptor_case::<u16, u32, u16, 12>,
            adaptor_case::<u16, u64, u16, 16>,
            adaptor_case::<u32, u64, u32, 24>,
            adaptor_case::<u32, u64, u32, 32>,
            adaptor_case::<u64, u128, u32, 17>,
        ];
        let k = rng.below(combos.len() as u64) as usize;
        return combos[k](run, rng);
    }
    range_rows!(run, rng, case_row)
}
