//! Property workloads + monitors. One module per property (some share code).

pub mod c01;
pub mod c02;
pub mod c06;
pub mod c11;

use crate::PropDef;

pub fn registry() -> Vec<PropDef> {
    vec![PropDef {
        id: "C01",
        tag: 1,
        case: c01::case,
        extra: Some(c01::sweep),
        panic_is_violation: true,
    },
    PropDef {
        id: "C02",
        tag: 2,
        case: c02::case,
        extra: None,
        panic_is_violation: true,
    },
    PropDef {
        id: "C06",
        tag: 6,
        case: c06::case,
        extra: Some(c06::golden),
        panic_is_violation: true,
    },
    PropDef {
        id: "C11",
        tag: 11,
        case: c11::case,
        extra: None,
        panic_is_violation: true,
    }]
}
