//! Property workloads + monitors. One module per property (some share code).

pub mod c01;

use crate::PropDef;

pub fn registry() -> Vec<PropDef> {
    vec![PropDef {
        id: "C01",
        tag: 1,
        case: c01::case,
        extra: Some(c01::sweep),
        panic_is_violation: true,
    }]
}
