//! Property workloads + monitors. One module per property (some share code).

pub mod c01;
pub mod c02;
pub mod c03;
pub mod c04;
pub mod c05;
pub mod c06;
pub mod c07;
pub mod c08;
pub mod c09;
pub mod c10;
pub mod c11;
pub mod c12;
pub mod c13;
pub mod c14;
pub mod c15;
pub mod c16;
pub mod c17;
pub mod c18;
pub mod c19;
pub mod c20;
pub mod diag;

use crate::PropDef;
pub use c04::gen_data as c04_gen_data;

fn def(
    id: &'static str,
    tag: u64,
    case: fn(&mut crate::report::Run, &mut crate::prng::Rng),
    extra: Option<fn(&mut crate::report::Run)>,
    panic_is_violation: bool,
) -> PropDef {
    PropDef {
        id,
        tag,
        case,
        extra,
        panic_is_violation,
    }
}

pub fn registry() -> Vec<PropDef> {
    vec![
        def("C01", 1, c01::case, Some(c01::sweep), true),
        def("C02", 2, c02::case, None, true),
        def("C03", 3, c03::case, None, true),
        def("C04", 4, c04::case, None, true),
        def("C05", 5, c05::case, None, true),
        def("C06", 6, c06::case, Some(c06::golden), true),
        def("C07", 7, c07::case, None, true),
        def("C08", 8, c08::case, None, true),
        def("C09", 9, c09::case, None, true),
        def("C10", 10, c10::case, None, true),
        def("C11", 11, c11::case, None, true),
        def("C12", 12, c12::case, Some(c12::advertised), true),
        def("C13", 13, c13::case, Some(c13::sweep), true),
        def("C14", 14, c14::case, None, true),
        def("C15", 15, c15::case, None, true),
        def("C16", 16, c16::case, Some(c16::exp_golomb_sweep), true),
        def("C17", 17, c17::case, None, true),
        def("C18", 18, c18::case, None, true),
        def("C19", 19, c19::case, None, false),
        def("C20", 20, c20::case, None, false),
    ]
}
