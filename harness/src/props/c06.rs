//! C06 — compressed bit streams conform to the specified rANS / range-coding format.
//!
//! Oracle: the independent reference implementations fed the identical `(cum, p, P)` stream
//! (TableModel, so no library model code is involved): per-step head/interval and final words.
//! Plus a pinned corpus of the byte-exact vectors printed in the project's own documentation.

use crate::num::{pow2, Num};
use crate::prng::Rng;
use crate::props::c01::words_u128;
use crate::props::c02::describe_msg;
use crate::range_rows;
use crate::rangew::*;
use crate::refimpl::{RefAns, RefRange};
use crate::report::Run;
use crate::table::*;
use constriction::stream::model::{DefaultContiguousCategoricalEntropyModel, DefaultLeakyQuantizer};
use constriction::stream::queue::{DefaultRangeDecoder, DefaultRangeEncoder, RangeEncoder};
use constriction::stream::stack::{AnsCoder, DefaultAnsCoder};
use constriction::stream::{Code, Decode, Encode};
use constriction::UnwrapInfallible;
use num_traits::AsPrimitive;
use probability::distribution::Gaussian;

fn ans_row<M: ModelSet, S: Num>(run: &mut Run, rng: &mut Rng)
where
    M::W: Into<S>,
    S: AsPrimitive<M::W>,
{
    let w = <M::W as Num>::NBITS;
    let s = S::NBITS;
    run.h(1 << 60 | w as u64 * 1000 + s as u64);
    run.count(row_name(w, s), 1);
    run.count("ans_messages", 1);
    let max_len = if run.small { 40 } else if run.thorough() { 2000 } else { 300 };
    let n = rng.usize_in(0, max_len);
    let zk = rng.usize_in(1, 4);
    let mut zoo: Vec<M> = gen_zoo(rng, zk, if run.small { 8 } else { 48 });
    let mut coder: AnsCoder<M::W, S, Vec<M::W>> = AnsCoder::new();
    if rng.chance(1, 8) {
        for _ in 0..rng.usize_in(1, 30) {
            let mi = rng.below(zoo.len() as u64) as usize;
            let sym = pick_symbol(rng, zoo[mi].cdf());
            zoo[mi].ans_encode(&mut coder, sym).expect("encode");
        }
        coder.clear();
        run.count("ans_coders_reused_after_clear", 1);
    }
    let mut reference = RefAns::new(w, s);
    // encoding on top of imported words / raw binary data must follow the format as well
    match rng.below(6) {
        0 => {
            let data: Vec<M::W> = crate::props::c01::gen_words(rng, 8, false);
            coder = AnsCoder::from_binary(data.clone()).unwrap_infallible();
            reference = RefAns::from_binary(w, s, &words_u128(&data));
            run.count("ans_starts_from_binary", 1);
        }
        1 => {
            let data: Vec<M::W> = crate::props::c01::gen_words(rng, 8, true);
            if let Ok(c) = AnsCoder::from_compressed(data.clone()) {
                coder = c;
                reference = RefAns::from_compressed(w, s, &words_u128(&data)).unwrap();
                run.count("ans_starts_from_compressed", 1);
            }
        }
        _ => {}
    }
    if coder.state().as_u() != reference.head || words_u128(coder.bulk()) != reference.bulk {
        run.violation("format", "C06/ans-ref-diverges", format!("W={} S={} after import: library head {:#x} bulk {:?} vs reference head {:#x} bulk {:?}", <M::W as Num>::NAME, S::NAME, coder.state().as_u(), words_u128(coder.bulk()), reference.head, reference.bulk));
        return;
    }
    let mut log: Vec<(u32, u128, u128)> = Vec::new();
    let mut flushes = 0u64;
    let mut edge_hits = 0u64;
    let peek_16: u64 = *rng.pick(&[0u64, 0, 0, 6]);
    let mut peeks = 0u64;
    for i in 0..n {
        let mut mi = rng.below(zoo.len() as u64) as usize;
        let mut sym = pick_symbol(rng, zoo[mi].cdf());
        if rng.chance(1, 3) {
            let v = rng.below(M::PRECS.len() as u64) as usize;
            let p = M::PRECS[v].0;
            let t = coder.state().as_u() >> (s - p);
            let want = t as i128 + rng.below(3) as i128 - 1;
            if want >= 1 && (want as u128) < pow2(p) {
                let want = want as u128;
                let cum = rng.below128(pow2(p) - want + 1);
                if let Some((cdf, target)) = three_symbol_cdf(cum, want, p) {
                    zoo.push(M::from_cdf(v, cdf));
                    mi = zoo.len() - 1;
                    sym = target;
                    edge_hits += 1;
                }
            }
        }
        if peek_16 > 0 && rng.below(16) < peek_16 {
            // somebody looks at the data while it is produced (plain and raw-binary views append
            // the state's words temporarily and must take exactly those away again)
            if rng.bool() {
                let _ = coder.get_compressed().map(|g| g.len());
            } else {
                let _ = coder.get_binary().map(|g| g.len());
            }
            peeks += 1;
        }
        let (cum, p) = zoo[mi].cp(sym);
        let prec = zoo[mi].prec();
        let bl = coder.bulk().len();
        zoo[mi].ans_encode(&mut coder, sym).expect("encode");
        reference.encode(cum, p, prec);
        flushes += (coder.bulk().len() - bl) as u64;
        run.h(sym as u64 ^ (prec as u64) << 40);
        run.h128(cum ^ p << 64);
        if log.len() < 40 {
            log.push((prec, cum, p));
        }
        if coder.state().as_u() != reference.head || coder.bulk().len() != reference.bulk.len() {
            run.violation(
                "format",
                "C06/ans-ref-diverges",
                format!(
                    "W={} S={} after symbol #{i} (P={prec},cum={cum},p={p}): library head {:#x} bulk_len {} vs reference head {:#x} bulk_len {}; first symbols {:?}",
                    <M::W as Num>::NAME, S::NAME, coder.state().as_u(), coder.bulk().len(), reference.head, reference.bulk.len(), log
                ),
            );
            return;
        }
    }
    run.count("ans_peeks_while_encoding", peeks);
    let words = words_u128(&coder.into_compressed().unwrap_infallible());
    let exp = reference.compressed();
    if words != exp {
        run.violation(
            "format",
            "C06/ans-ref-diverges",
            format!("W={} S={} n={n}: into_compressed {:?} vs reference {:?}; first symbols {:?}", <M::W as Num>::NAME, S::NAME, words, exp, log),
        );
        return;
    }
    run.count("ans_symbols", n as u64);
    run.count("ans_flushes", flushes);
    run.count("ans_flush_edge_steered", edge_hits);
    if flushes > 0 {
        run.nontrivial();
    }
    run.describe(|| format!("ANS W={} S={} n={n} first (P,cum,p)={:?} -> {:?}", <M::W as Num>::NAME, S::NAME, log, words));
}

fn range_row<M: ModelSet, S: Num>(run: &mut Run, rng: &mut Rng)
where
    M::W: Into<S>,
    S: AsPrimitive<M::W>,
{
    let w = <M::W as Num>::NBITS;
    let s = S::NBITS;
    run.h(2 << 60 | w as u64 * 1000 + s as u64);
    run.count(row_name(w, s), 1);
    run.count("range_messages", 1);
    let max_len = if run.small { 40 } else if run.thorough() { 2000 } else { 300 };
    let n = rng.usize_in(0, max_len);
    let mut enc: Enc<M, S> = RangeEncoder::new();
    if rng.chance(1, 6) {
        // an encoder that was used before and clear()ed must emit the same format as a new one
        let mut junk = Msg::<M> { zoo: Vec::new(), syms: Vec::new() };
        let mut e0 = Edges::default();
        let cfg0 = DriveCfg { n: rng.usize_in(1, 60), steer_16: 12, max_n_symbols: 16, end_near_16: 0 };
        if !drive(run, rng, &mut enc, &mut junk, None, &mut e0, &cfg0, |_, _, _, _, _| true) {
            return;
        }
        if num_inverted::<M, S>(&enc) > 0 {
            run.count("clear_while_inverted", 1);
        }
        enc.clear();
        run.count("range_encoders_reused_after_clear", 1);
    }
    let mut reference = RefRange::new(w, s);
    let mut msg = Msg::<M> { zoo: Vec::new(), syms: Vec::new() };
    let mut edges = Edges::default();
    let cfg = DriveCfg { n, steer_16: if rng.bool() { 10 } else { 1 }, max_n_symbols: if run.small { 8 } else { 48 }, end_near_16: 2 };
    // per-step interval comparison through the hook
    let mut ref_shadow: Vec<(u128, u128)> = Vec::new();
    let _ = &mut ref_shadow;
    // in 1/4 of the messages somebody looks at the compressed data while it is being produced
    // (that seals and unseals temporarily); the emitted words must still be the format's
    let peek_16: u64 = *rng.pick(&[0u64, 0, 0, 6]);
    let mut peeks = 0u64;
    if !drive(run, rng, &mut enc, &mut msg, Some(&mut reference), &mut edges, &cfg, |_, rng, e, _, _| {
        if peek_16 > 0 && rng.below(16) < peek_16 {
            peeks += 1;
            if rng.bool() {
                let _ = e.get_compressed().len();
            } else {
                let _ = e.decoder().maybe_exhausted();
            }
        }
        true
    }) {
        return;
    }
    run.count("range_peeks_while_encoding", peeks);
    // final interval must agree with the reference's (low, range); digits are compared below
    let (l, r) = lower_range::<M, S>(&enc);
    if l != reference.low || r != reference.range {
        run.violation(
            "format",
            "C06/range-ref-diverges",
            format!("W={} S={} interval after {} symbols: library ({l:#x},{r:#x}) vs reference ({:#x},{:#x}); {}", <M::W as Num>::NAME, S::NAME, n, reference.low, reference.range, describe_msg(&msg)),
        );
        return;
    }
    edges.publish(run);
    let cls = crate::props::c02::seal_class::<M, S>(&enc);
    if n > 0 {
        crate::props::c02::count_seal(run, cls);
    }
    let words = words_u128(&enc.into_compressed().unwrap_infallible());
    let exp = reference.sealed();
    if words != exp {
        run.violation(
            "format",
            "C06/range-ref-diverges",
            format!("W={} S={} {} :: into_compressed {:?} vs reference {:?}", <M::W as Num>::NAME, S::NAME, describe_msg(&msg), words, exp),
        );
        return;
    }
    run.count("range_symbols", n as u64);
    if words.len() > 2 || edges.renorms > 0 {
        run.nontrivial();
    }
    run.describe(|| format!("RANGE W={} S={} {} -> {:?}", <M::W as Num>::NAME, S::NAME, describe_msg(&msg), words));
}

pub fn case(run: &mut Run, rng: &mut Rng) {
    if rng.bool() {
        range_rows!(run, rng, ans_row)
    } else {
        range_rows!(run, rng, range_row)
    }
}

// ------------------------------------------------------------------------------------------
// golden corpus (documentation vectors)

pub fn golden(run: &mut Run) {
    if run.shard != 0 {
        return;
    }
    let mut checked = 0u64;
    macro_rules! expect {
        ($name:expr, $got:expr, $want:expr) => {{
            checked += 1;
            let g = $got;
            let w = $want;
            if g != w {
                run.violation("golden", concat!("C06/golden/", $name), format!("{}: got {:x?}, documented {:x?}", $name, g, w));
            }
        }};
    }
    let symbols = [23i32, -15, 78, 43, -69];
    let means = [35.2f64, -1.7, 30.1, 71.2, -75.1];
    let stds = [10.1f64, 25.3, 23.8, 35.4, 3.9];
    let quantizer = DefaultLeakyQuantizer::new(-100..=100);

    // README / lib.rs ANS example
    {
        let mut coder = DefaultAnsCoder::new();
        coder
            .encode_symbols_reverse(
                symbols.iter().zip(&means).zip(&stds).map(|((&sym, &mean), &std)| (sym, quantizer.quantize(Gaussian::new(mean, std)))),
            )
            .unwrap();
        expect!("readme-ans", coder.clone().into_compressed().unwrap(), vec![0x421C_7EC3u32, 0x000B_8ED1]);
        let mut dec = DefaultAnsCoder::from_compressed(vec![0x421C_7EC3u32, 0x000B_8ED1]).unwrap();
        let got: Vec<i32> = dec
            .decode_symbols(means.iter().zip(&stds).map(|(&mean, &std)| quantizer.quantize(Gaussian::new(mean, std))))
            .collect::<Result<Vec<_>, _>>()
            .unwrap();
        expect!("readme-ans-decode", got, symbols.to_vec());
    }
    // README / lib.rs range example
    {
        let mut enc = DefaultRangeEncoder::new();
        enc.encode_symbols(symbols.iter().zip(&means).zip(&stds).map(|((&sym, &mean), &std)| (sym, quantizer.quantize(Gaussian::new(mean, std)))))
            .unwrap();
        let c = enc.into_compressed().unwrap();
        expect!("readme-range", c.clone(), vec![0x1C31EFEBu32, 0x87B430DA]);
        let mut dec = DefaultRangeDecoder::from_compressed(c).unwrap();
        let got: Vec<i32> = dec
            .decode_symbols(means.iter().zip(&stds).map(|(&mean, &std)| quantizer.quantize(Gaussian::new(mean, std))))
            .collect::<Result<Vec<_>, _>>()
            .unwrap();
        expect!("readme-range-decode", got, symbols.to_vec());
    }
    // stream/mod.rs decode_symbol example
    {
        let mut c = DefaultAnsCoder::from_compressed(vec![0x1E34_22B0u32]).unwrap();
        let m = quantizer.quantize(Gaussian::new(0.0, 10.0));
        let a = c.decode_symbol(&m).unwrap_infallible();
        let b = c.decode_symbol(m).unwrap_infallible();
        expect!("mod-decode_symbol", (a, b, c.is_empty()), (-8, 12, true));
    }
    // stream/mod.rs decode_symbols example
    {
        let mut c = DefaultAnsCoder::from_compressed(vec![0x2C63_D22Eu32, 0x0000_0377]).unwrap();
        let got: Vec<i32> = c
            .decode_symbols((0..5).map(|i| quantizer.quantize(Gaussian::new((i * 10) as f64, 10.0))))
            .map(|r| r.unwrap_infallible())
            .collect();
        expect!("mod-decode_symbols", got, vec![-3, 12, 19, 28, 41]);
    }
    // stack.rs from_binary doc example
    {
        let c = DefaultAnsCoder::from_binary(vec![0x89ab_cdefu32, 0x0123_4567]).unwrap_infallible();
        expect!("stack-from_binary", c.into_compressed().unwrap(), vec![0x89ab_cdefu32, 0x0123_4567, 0x0000_0001]);
    }
    // python doc examples whose models map 1:1 onto Rust constructors
    {
        let m = DefaultContiguousCategoricalEntropyModel::from_floating_point_probabilities_fast(&[0.1f64, 0.6, 0.3], None).unwrap();
        let mut c = DefaultAnsCoder::new();
        c.encode_iid_symbols_reverse([0usize, 2, 1, 2, 0, 2, 0, 2, 1], &m).unwrap();
        expect!("py-ans_encode_reverse2", c.into_compressed().unwrap(), vec![1276728145u32, 172]);
        let mut d = DefaultAnsCoder::from_compressed(vec![1441153686u32, 108]).unwrap();
        let got: Vec<usize> = d.decode_iid_symbols(9, &m).map(|r| r.unwrap_infallible()).collect();
        expect!("py-ans_decode2", got, vec![2usize, 0, 0, 1, 2, 2, 1, 2, 2]);
        let mut d = DefaultAnsCoder::from_compressed(vec![2514924296u32, 114]).unwrap();
        expect!("py-ans_decode1", d.decode_symbol(&m).unwrap_infallible(), 2usize);
    }
    {
        let m0 = DefaultContiguousCategoricalEntropyModel::from_floating_point_probabilities_fast(&[0.1f64, 0.2, 0.3, 0.1, 0.3], None).unwrap();
        let m1 = DefaultContiguousCategoricalEntropyModel::from_floating_point_probabilities_fast(&[0.3f64, 0.2, 0.2, 0.2, 0.1], None).unwrap();
        let mut c = DefaultAnsCoder::new();
        c.encode_symbols_reverse([(3usize, &m0), (1usize, &m1)]).unwrap();
        expect!("py-ans_encode_reverse4", c.into_compressed().unwrap(), vec![45298481u32]);
    }
    {
        let means = [10.3f64, -4.7, 20.5];
        let stds = [5.2f64, 24.2, 3.1];
        let syms = [12i32, -13, 25];
        let mut c = DefaultAnsCoder::new();
        c.encode_symbols_reverse(syms.iter().zip(&means).zip(&stds).map(|((&s, &m), &sd)| (s, quantizer.quantize(Gaussian::new(m, sd)))))
            .unwrap();
        expect!("py-ans_encode_reverse3", c.into_compressed().unwrap(), vec![597775281u32, 3]);
    }
    run.count("golden_vectors_checked", checked);
}
