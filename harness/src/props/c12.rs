//! C12 — compressed size stays within the proven overhead of the information content.
//!
//! After n symbols from an empty coder:
//!   bits  <= sum_i IC_i + sum_i log2(1 + 2^-(S-W-P_i)) + (S + 2W)
//!   words <= n + S/W + 2
//! and an ANS `encode_symbol` emits at most one word. Checked after EVERY symbol.

use crate::num::{pow2, Num};
use crate::obsbackend::CountBackend;
use crate::prng::Rng;
use crate::range_rows;
use crate::rangew::*;
use crate::report::Run;
use crate::table::*;
use constriction::stream::queue::RangeEncoder;
use constriction::stream::stack::AnsCoder;
use constriction::stream::Code;
use num_traits::AsPrimitive;

struct Kahan {
    sum: f64,
    c: f64,
}
impl Kahan {
    fn new() -> Self {
        Kahan { sum: 0.0, c: 0.0 }
    }
    fn add(&mut self, x: f64) {
        let y = x - self.c;
        let t = self.sum + y;
        self.c = (t - self.sum) - y;
        self.sum = t;
    }
}

fn log2_u128(x: u128) -> f64 {
    // exact enough: x < 2^64 in all instantiated rows
    (x as f64).log2()
}

fn eps(s: u32, w: u32, p: u32) -> f64 {
    let e = (s - w - p) as f64;
    (1.0 + (-e).exp2()).log2()
}

fn pick_by_mode<M: ModelSet>(rng: &mut Rng, m: &M, mode: u64) -> usize {
    let cdf = m.cdf();
    let n = cdf.len() - 1;
    match mode {
        0 => pick_symbol(rng, cdf),
        1 => (0..n).max_by_key(|&i| cdf[i + 1] - cdf[i]).unwrap(),
        2 => (0..n).min_by_key(|&i| cdf[i + 1] - cdf[i]).unwrap(),
        _ => {
            let q = rng.below128(*cdf.last().unwrap());
            cdf.partition_point(|&c| c <= q) - 1
        }
    }
}

fn ans_row<M: ModelSet, S: Num>(run: &mut Run, rng: &mut Rng)
where
    S: AsPrimitive<M::W> + From<M::W>,
{
    let w = <M::W as Num>::NBITS;
    let s = S::NBITS;
    run.h(1 << 60 | w as u64 * 1000 + s as u64);
    run.count(row_name(w, s), 1);
    run.count("ans_messages", 1);
    let n = if run.small { rng.usize_in(1, 60) } else if run.thorough() { rng.usize_in(1000, 60000) } else { rng.usize_in(200, 3000) };
    let zk = rng.usize_in(1, 4);
    let mut zoo: Vec<M> = gen_zoo(rng, zk, 40);
    let mode = rng.below(4);
    let steer = rng.bool();
    let mut coder: AnsCoder<M::W, S, CountBackend<M::W>> = AnsCoder::default();
    let peek_16: u64 = *rng.pick(&[0u64, 0, 2, 8]);
    let mut ic = Kahan::new();
    let mut slack = Kahan::new();
    let konst = (s + 2 * w) as f64;
    let mut max_excess = f64::NEG_INFINITY;
    for i in 0..n {
        let mut mi = rng.below(zoo.len() as u64) as usize;
        let mut sym = pick_by_mode(rng, &zoo[mi], mode);
        if steer && rng.chance(1, 2) && zoo.len() < 4000 {
            let v = rng.below(M::PRECS.len() as u64) as usize;
            let p = M::PRECS[v].0;
            let t = coder.state().as_u() >> (s - p);
            let want = t as i128 + rng.below(3) as i128 - 1;
            if want >= 1 && (want as u128) < pow2(p) {
                let cum = rng.below128(pow2(p) - want as u128 + 1);
                if let Some((cdf, target)) = three_symbol_cdf(cum, want as u128, p) {
                    zoo.push(M::from_cdf(v, cdf));
                    mi = zoo.len() - 1;
                    sym = target;
                }
            }
        }
        let (_, p) = zoo[mi].cp(sym);
        let prec = zoo[mi].prec();
        if peek_16 > 0 && rng.below(16) < peek_16 {
            if rng.bool() {
                let g = coder.get_compressed();
                let _ = g.map(|g| g.v.len());
            } else {
                // raw-binary view; usually refuses (state not word aligned) - that must be free too
                let g = coder.get_binary();
                let _ = g.map(|g| g.v.len());
            }
            run.count("ans_peeks_while_encoding", 1);
        }
        let w0 = coder.bulk().writes;
        zoo[mi].ans_encode(&mut coder, sym).expect("encode");
        let wrote = coder.bulk().writes - w0;
        if wrote > 1 {
            run.violation("multi-word", "C12/ans-more-than-one-word-per-symbol", format!("encode_symbol #{i} wrote {wrote} words (W={w},S={s},P={prec},p={p})"));
            return;
        }
        ic.add(prec as f64 - log2_u128(p));
        slack.add(eps(s, w, prec));
        run.h(sym as u64 ^ (mi as u64) << 40);
        let bound = ic.sum + slack.sum + konst + 1e-6;
        let bits = coder.num_bits() as f64;
        let valid = coder.num_valid_bits() as f64;
        let words = coder.num_words();
        let excess = bits - (ic.sum + slack.sum);
        if excess > max_excess {
            max_excess = excess;
        }
        if bits > bound || valid > bound || words > i + 1 + (s / w) as usize + 2 {
            run.violation(
                "size-bound",
                "C12/ans-size-bound",
                format!(
                    "ANS W={w} S={s} after {} symbols (mode {mode}, steer {steer}): num_bits={bits} num_valid_bits={valid} num_words={words}; information content {:.3} + rounding {:.3} + constant {konst} = {:.3}",
                    i + 1, ic.sum, slack.sum, bound
                ),
            );
            return;
        }
    }
    run.count("ans_symbols", n as u64);
    run.maximum(
        match (w, s) {
            (8, 16) => "ans_max_excess_bits_u8_u16",
            (8, 32) => "ans_max_excess_bits_u8_u32",
            (16, 32) => "ans_max_excess_bits_u16_u32",
            (32, 64) => "ans_max_excess_bits_u32_u64",
            _ => "ans_max_excess_bits_other_rows",
        },
        max_excess,
    );
    if n >= 1000 {
        run.nontrivial();
    }
    run.describe(|| format!("ANS W={w} S={s} n={n} mode={mode} steer={steer}: IC={:.2} bits, final num_bits={}, max excess over IC+n*eps = {:.2} (allowed {konst})", ic.sum, coder.num_bits(), max_excess));
}

fn range_row<M: ModelSet, S: Num>(run: &mut Run, rng: &mut Rng)
where
    S: AsPrimitive<M::W> + From<M::W>,
{
    let w = <M::W as Num>::NBITS;
    let s = S::NBITS;
    run.h(2 << 60 | w as u64 * 1000 + s as u64);
    run.count(row_name(w, s), 1);
    run.count("range_messages", 1);
    let n = if run.small { rng.usize_in(1, 60) } else if run.thorough() { rng.usize_in(1000, 40000) } else { rng.usize_in(200, 2500) };
    let mut enc: Enc<M, S> = RangeEncoder::new();
    if rng.chance(1, 6) {
        // "starting from an empty coder" includes a coder emptied with clear()
        let mut junk = Msg::<M> { zoo: Vec::new(), syms: Vec::new() };
        let mut e0 = Edges::default();
        let cfg0 = DriveCfg { n: rng.usize_in(1, 60), steer_16: 12, max_n_symbols: 16, end_near_16: 0 };
        if !drive(run, rng, &mut enc, &mut junk, None, &mut e0, &cfg0, |_, _, _, _, _| true) {
            return;
        }
        if num_inverted::<M, S>(&enc) > 0 {
            run.count("clear_while_inverted", 1);
        }
        enc.clear();
        run.count("coders_reused_after_clear", 1);
    }
    // looking at the compressed data while encoding must not cost anything either
    let peek_16: u64 = *rng.pick(&[0u64, 0, 2, 8]);
    let mut peeks = 0u64;
    let mut peeks_inverted = 0u64;
    let mut msg = Msg::<M> { zoo: Vec::new(), syms: Vec::new() };
    let mut edges = Edges::default();
    let cfg = DriveCfg { n, steer_16: *rng.pick(&[0u64, 2, 12]), max_n_symbols: 40, end_near_16: 4 };
    let mut ic = Kahan::new();
    let mut slack = Kahan::new();
    let konst = (s + 2 * w) as f64;
    let mut max_excess = f64::NEG_INFINITY;
    let mut accounted = 0usize;
    let ok = drive(run, rng, &mut enc, &mut msg, None, &mut edges, &cfg, |run, _rng, e, msg, i| {
        // account for the symbols encoded since the last call (exactly one, except at i == 0)
        while accounted < i {
            let (mi, sym) = msg.syms[accounted];
            let (_, p) = msg.zoo[mi].cp(sym);
            let prec = msg.zoo[mi].prec();
            ic.add(prec as f64 - log2_u128(p));
            slack.add(eps(s, w, prec));
            accounted += 1;
        }
        if i == 0 {
            return true;
        }
        if peek_16 > 0 && _rng.below(16) < peek_16 {
            peeks += 1;
            if num_inverted::<M, S>(e) > 0 {
                peeks_inverted += 1;
            }
            if _rng.bool() {
                let g = e.get_compressed();
                let _ = g.len();
            } else {
                let d = e.decoder();
                let _ = d.maybe_exhausted();
            }
        }
        let bits = e.num_bits() as f64;
        let words = e.num_words();
        let bound = ic.sum + slack.sum + konst + 1e-6;
        let excess = bits - (ic.sum + slack.sum);
        if excess > max_excess {
            max_excess = excess;
        }
        if bits > bound || words > i + (s / w) as usize + 2 {
            run.violation(
                "size-bound",
                "C12/range-size-bound",
                format!(
                    "RANGE W={w} S={s} after {i} symbols: num_bits={bits} num_words={words} (held back {}); information content {:.3} + rounding {:.3} + constant {konst} = {:.3}",
                    num_inverted::<M, S>(e), ic.sum, slack.sum, bound
                ),
            );
            return false;
        }
        true
    });
    if !ok {
        return;
    }
    edges.publish(run);
    run.count("range_peeks_while_encoding", peeks);
    run.count("range_peeks_while_inverted", peeks_inverted);
    run.count("range_symbols", n as u64);
    run.maximum(
        match (w, s) {
            (8, 16) => "range_max_excess_bits_u8_u16",
            (8, 32) => "range_max_excess_bits_u8_u32",
            (16, 32) => "range_max_excess_bits_u16_u32",
            (32, 64) => "range_max_excess_bits_u32_u64",
            _ => "range_max_excess_bits_other_rows",
        },
        max_excess,
    );
    if n >= 1000 {
        run.nontrivial();
    }
    run.describe(|| format!("RANGE W={w} S={s} n={n}: IC={:.2} bits, final num_bits={}, max excess over IC+n*eps = {:.2} (allowed {konst})", ic.sum, enc.num_bits(), max_excess));
}

/// The advertised constant: with the default preset (u32,u64,P=24) the per-symbol term is
/// below 0.006 bit.
pub fn advertised(run: &mut Run) {
    let e = eps(64, 32, 24);
    if !(e < 0.006) {
        run.violation("advertised", "C12/advertised-constant", format!("log2(1+2^-8) = {e}"));
    }
    run.count("advertised_constant_checked", 1);
}

pub fn case(run: &mut Run, rng: &mut Rng) {
    if rng.bool() {
        range_rows!(run, rng, ans_row)
    } else {
        range_rows!(run, rng, range_row)
    }
}
