//! C15 — Huffman codebooks are prefix-free, complete, optimal and mutually consistent.
//!
//! Oracle: an independent reference construction ((weight, index) min-heap with new nodes
//! numbered after the leaves — the documented deterministic tie-break) for *exact* codeword
//! equality, an independent optimal cost (two-queue method on sorted weights), the Kraft sum
//! in exact integer arithmetic, and decoding of every codeword.

use crate::prng::Rng;
use crate::report::Run;
use constriction::symbol::huffman::{DecoderHuffmanTree, EncoderHuffmanTree};
use constriction::symbol::{DecoderCodebook, EncoderCodebook};
use constriction::{CoderError, DefaultEncoderFrontendError, NanError};
use std::cmp::Reverse;
use std::collections::{BinaryHeap, VecDeque};

/// Reference codewords (root-to-leaf bit strings): (weight, index) min-heap, new nodes
/// numbered after the leaves; generic over the weight arithmetic so that inexact float sums
/// (f32) are reproduced with the same rounding as the library's documented algorithm.
fn reference_codewords<T: Ord + Clone + core::ops::Add<Output = T>>(weights: &[T]) -> Vec<Vec<bool>> {
    let n = weights.len();
    if n == 1 {
        return vec![vec![]];
    }
    // parent[i] = (parent index, bit)
    let mut parent: Vec<Option<(usize, bool)>> = vec![None; 2 * n - 1];
    let mut heap: BinaryHeap<Reverse<(T, usize)>> = weights.iter().cloned().enumerate().map(|(i, w)| Reverse((w, i))).collect();
    let mut next = n;
    while heap.len() >= 2 {
        let Reverse((w0, i0)) = heap.pop().unwrap();
        let Reverse((w1, i1)) = heap.pop().unwrap();
        parent[i0] = Some((next, false));
        parent[i1] = Some((next, true));
        heap.push(Reverse((w0 + w1, next)));
        next += 1;
    }
    (0..n)
        .map(|s| {
            let mut bits = Vec::new();
            let mut node = s;
            while let Some((p, b)) = parent[node] {
                bits.push(b);
                node = p;
            }
            bits.reverse();
            bits
        })
        .collect()
}

#[derive(Clone, Copy, PartialEq, PartialOrd)]
struct OrdF32(f32);
impl Eq for OrdF32 {}
#[allow(clippy::derive_ord_xor_partial_ord)]
impl Ord for OrdF32 {
    fn cmp(&self, o: &Self) -> std::cmp::Ordering {
        self.0.partial_cmp(&o.0).expect("no NaN")
    }
}
impl core::ops::Add for OrdF32 {
    type Output = OrdF32;
    fn add(self, o: OrdF32) -> OrdF32 {
        OrdF32(self.0 + o.0)
    }
}

macro_rules! float_tree_checks {
    ($run:ident, $desc:ident, $weights:ident, $F:ty, $O:ident) => {{
        let run = $run;
        let desc = $desc;
        let weights = $weights;
        let n = weights.len();
    let enc = EncoderHuffmanTree::from_float_probabilities::<$F, _>(&weights).unwrap();
    let dec = DecoderHuffmanTree::from_float_probabilities::<$F, _>(&weights).unwrap();
    let reference = reference_codewords(&weights.iter().map(|&w| $O(w)).collect::<Vec<_>>());
    let mut codewords = Vec::with_capacity(n);
    for s in 0..n {
        let mut pre = Vec::new();
        let mut suf = Vec::new();
        enc.encode_symbol_prefix(s, |b| { pre.push(b); Ok::<(), core::convert::Infallible>(()) }).unwrap();
        enc.encode_symbol_suffix(s, |b| { suf.push(b); Ok::<(), core::convert::Infallible>(()) }).unwrap();
        suf.reverse();
        if pre != suf {
            run.violation("huffman", "C15/prefix-vs-suffix", format!("{desc} :: symbol {s}: prefix {:?} vs reversed suffix {:?}", pre, suf));
            return;
        }
        match dec.decode_symbol(pre.iter().map(|&b| Ok::<bool, core::convert::Infallible>(b))) {
            Ok(g) if g == s => {}
            other => {
                run.violation("huffman", "C15/decode", format!("{desc} :: the encoder tree's codeword {:?} of symbol {s} decodes to {other:?} with the decoder tree built from the same weights", pre));
                return;
            }
        }
        if pre != reference[s] {
            run.violation("huffman", "C15/tie-break-or-shape", format!("{desc} :: symbol {s}: codeword {:?}, reference construction in the same float arithmetic gives {:?}", pre, reference[s]));
            return;
        }
        codewords.push(pre);
    }
    if n >= 2 {
        let lmax = codewords.iter().map(|c| c.len()).max().unwrap();
        if lmax < 120 {
            let kraft: u128 = codewords.iter().map(|c| 1u128 << (lmax - c.len())).sum();
            if kraft != 1u128 << lmax {
                run.violation("huffman", "C15/kraft", format!("{desc} :: Kraft sum {kraft} / 2^{lmax} != 1"));
                return;
            }
        }
    }
    run.count("codewords_checked", n as u64);
    run.describe(|| desc);
    }};
}

/// f32 weights with inexact sums (decimal fractions, ties created or destroyed by rounding):
/// mutual consistency of encoder and decoder trees, codeword equality with the reference run
/// in f32 arithmetic, prefix-freeness and Kraft. (Optimality is only decidable exactly, so it
/// is checked in the exact cases of `case_inner`.)
fn case_f32(run: &mut Run, rng: &mut Rng) {
    let n = rng.usize_in(1, if run.small { 10 } else { 120 });
    let style = rng.below(4);
    let weights: Vec<f32> = (0..n)
        .map(|_| match style {
            0 => (1 + rng.below(9)) as f32 * 0.1,
            1 => (1 + rng.below(30)) as f32 * 0.01,
            2 => (16_777_216.0f32) + (2 * rng.below(6)) as f32 + if rng.chance(1, 6) { -16_777_215.0 } else { 0.0 },
            _ => rng.f64() as f32,
        })
        .collect();
    for w in &weights {
        run.h(w.to_bits() as u64);
    }
    run.count("weight_vectors", 1);
    run.count("f32_weight_vectors", 1);
    run.nontrivial();
    let desc = format!("Huffman [f32, inexact sums] n={n} weights {:?}", if n <= 40 { weights.clone() } else { weights[..40].to_vec() });
    run.note(|| desc.clone());
    float_tree_checks!(run, desc, weights, f32, OrdF32);
}

#[derive(Clone, Copy, PartialEq, PartialOrd)]
struct OrdF64(f64);
impl Eq for OrdF64 {}
#[allow(clippy::derive_ord_xor_partial_ord)]
impl Ord for OrdF64 {
    fn cmp(&self, o: &Self) -> std::cmp::Ordering {
        self.0.partial_cmp(&o.0).expect("no NaN")
    }
}
impl core::ops::Add for OrdF64 {
    type Output = OrdF64;
    fn add(self, o: OrdF64) -> OrdF64 {
        OrdF64(self.0 + o.0)
    }
}

/// Very deep trees: f64 weights growing geometrically (powers of two, powers of three,
/// Fibonacci numbers far beyond 2^53) give code words of 100 .. 250 bits - longer than any
/// integer register an implementation might collect a code word in. Same checks as above.
fn case_deep_f64(run: &mut Run, rng: &mut Rng) {
    let n = rng.usize_in(if run.small { 60 } else { 100 }, if run.small { 70 } else { 250 });
    let style = rng.below(3);
    let mut weights: Vec<f64> = Vec::with_capacity(n);
    let (mut a, mut b) = (1.0f64, 1.0f64);
    for i in 0..n {
        weights.push(match style {
            0 => (2.0f64).powi(i as i32),
            1 => (3.0f64).powi(i as i32),
            _ => {
                let r = a;
                let c = a + b;
                a = b;
                b = c;
                r
            }
        });
    }
    match rng.below(3) {
        0 => weights.reverse(),
        1 => {
            // a mild shuffle keeps the tree deep but changes which symbols are deep
            for _ in 0..n / 4 {
                let (i, j) = (rng.below(n as u64) as usize, rng.below(n as u64) as usize);
                weights.swap(i, j);
            }
        }
        _ => {}
    }
    for w in &weights {
        run.h(w.to_bits());
    }
    run.count("weight_vectors", 1);
    run.count("deep_f64_weight_vectors", 1);
    run.nontrivial();
    let desc = format!("Huffman [f64, geometric weights, style {style}] n={n} first weights {:?}", &weights[..8]);
    run.note(|| desc.clone());
    float_tree_checks!(run, desc, weights, f64, OrdF64);
}

/// Optimal total weighted length by the two-queue method.
fn optimal_cost(weights: &[u128]) -> u128 {
    if weights.len() < 2 {
        return 0;
    }
    let mut w = weights.to_vec();
    w.sort_unstable();
    let mut q1: VecDeque<u128> = w.into();
    let mut q2: VecDeque<u128> = VecDeque::new();
    let mut cost = 0u128;
    let pop = |q1: &mut VecDeque<u128>, q2: &mut VecDeque<u128>| -> u128 {
        match (q1.front(), q2.front()) {
            (Some(a), Some(b)) => {
                if a <= b {
                    q1.pop_front().unwrap()
                } else {
                    q2.pop_front().unwrap()
                }
            }
            (Some(_), None) => q1.pop_front().unwrap(),
            (None, Some(_)) => q2.pop_front().unwrap(),
            (None, None) => unreachable!(),
        }
    };
    while q1.len() + q2.len() >= 2 {
        let a = pop(&mut q1, &mut q2);
        let b = pop(&mut q1, &mut q2);
        cost += a + b;
        q2.push_back(a + b);
    }
    cost
}

fn gen_weights(rng: &mut Rng, small: bool, thorough: bool) -> (Vec<u64>, &'static str) {
    let n = match rng.below(10) {
        0 => 1,
        1 => 2,
        2 => 3,
        3 if thorough && !small => rng.usize_in(300, 10_000),
        _ => rng.usize_in(1, if small { 12 } else { 300 }),
    };
    let style = rng.below(8);
    let (v, name): (Vec<u64>, &'static str) = match style {
        0 => ((0..n).map(|_| rng.below(4)).collect(), "many-ties-and-zeros"),
        1 => ((0..n).map(|_| 1u64 << rng.below(20)).collect(), "powers-of-two"),
        2 => {
            let mut a = 1u64;
            let mut b = 1u64;
            let v = (0..n)
                .map(|_| {
                    let r = a;
                    let c = a.saturating_add(b).min(1 << 50);
                    a = b;
                    b = c;
                    r
                })
                .collect();
            (v, "fibonacci-deep-tree")
        }
        3 => (vec![7; n], "all-equal"),
        4 => ((0..n).map(|_| 0).collect(), "all-zero"),
        5 => ((0..n).map(|i| (i as u64) % 5 + 1).collect(), "periodic"),
        _ => ((0..n).map(|_| rng.below(1000)).collect(), "random"),
    };
    (v, name)
}

fn case_inner(run: &mut Run, rng: &mut Rng) {
    let (weights, style) = gen_weights(rng, run.small, run.thorough());
    let n = weights.len();
    for w in &weights {
        run.h(*w);
    }
    run.count("weight_vectors", 1);
    let mut sorted = weights.clone();
    sorted.sort_unstable();
    if sorted.windows(2).any(|w| w[0] == w[1]) {
        run.nontrivial();
        run.count("weight_vectors_with_ties", 1);
    }
    let as_float = rng.chance(1, 3);
    let desc = format!("Huffman [{style}{}] n={n} weights {:?}", if as_float { ", as f64 * 2^-k" } else { "" }, if n <= 40 { weights.clone() } else { weights[..40].to_vec() });
    run.note(|| desc.clone());
    let (enc, dec) = if as_float {
        // floats exactly representable with exact partial sums: small integers times 2^-k
        let k = rng.below(20) as i32;
        let f: Vec<f64> = weights.iter().map(|&w| w as f64 * (2f64).powi(-k)).collect();
        (EncoderHuffmanTree::from_float_probabilities::<f64, _>(&f).unwrap(), DecoderHuffmanTree::from_float_probabilities::<f64, _>(&f).unwrap())
    } else {
        (EncoderHuffmanTree::from_probabilities::<u64, _>(&weights), DecoderHuffmanTree::from_probabilities::<u64, _>(&weights))
    };
    macro_rules! fail {
        ($sig:expr, $($arg:tt)*) => {{
            run.violation("huffman", $sig, format!("{desc} :: {}", format!($($arg)*)));
            return;
        }};
    }
    if enc.num_symbols() != n || dec.num_symbols() != n {
        fail!("C15/num_symbols", "num_symbols() = {} / {}", enc.num_symbols(), dec.num_symbols());
    }
    let w128: Vec<u128> = weights.iter().map(|&w| w as u128).collect();
    let reference = reference_codewords(&w128);
    let mut codewords: Vec<Vec<bool>> = Vec::with_capacity(n);
    for s in 0..n {
        let mut pre = Vec::new();
        let mut suf = Vec::new();
        if enc.encode_symbol_prefix(s, |b| { pre.push(b); Ok::<(), core::convert::Infallible>(()) }).is_err() {
            fail!("C15/in-alphabet-symbol-rejected", "symbol {s} rejected");
        }
        enc.encode_symbol_suffix(s, |b| { suf.push(b); Ok::<(), core::convert::Infallible>(()) }).unwrap();
        suf.reverse();
        if pre != suf {
            fail!("C15/prefix-vs-suffix", "symbol {s}: prefix form {:?} is not the reversed suffix form {:?}", pre, suf);
        }
        // decode the codeword back
        match dec.decode_symbol(pre.iter().map(|&b| Ok::<bool, core::convert::Infallible>(b))) {
            Ok(g) if g == s => {}
            other => fail!("C15/decode", "codeword {:?} of symbol {s} decodes to {other:?}", pre),
        }
        if pre != reference[s] {
            fail!("C15/tie-break-or-shape", "symbol {s}: codeword {:?}, reference construction (ties broken by index) gives {:?}", pre, reference[s]);
        }
        codewords.push(pre);
    }
    // prefix-free (sort and compare neighbours) + Kraft equality
    if n >= 2 {
        let mut sorted_cw: Vec<&Vec<bool>> = codewords.iter().collect();
        sorted_cw.sort();
        for w in sorted_cw.windows(2) {
            if w[1].len() >= w[0].len() && w[1][..w[0].len()] == w[0][..] {
                fail!("C15/not-prefix-free", "codeword {:?} is a prefix of {:?}", w[0], w[1]);
            }
        }
        let lmax = codewords.iter().map(|c| c.len()).max().unwrap();
        if lmax < 120 {
            let kraft: u128 = codewords.iter().map(|c| 1u128 << (lmax - c.len())).sum();
            if kraft != 1u128 << lmax {
                fail!("C15/kraft", "Kraft sum {kraft} / 2^{lmax} != 1");
            }
        }
        let cost: u128 = codewords.iter().zip(&w128).map(|(c, w)| c.len() as u128 * w).sum();
        let opt = optimal_cost(&w128);
        if cost != opt {
            fail!("C15/not-optimal", "total weighted length {cost}, optimum {opt}");
        }
    } else if !codewords[0].is_empty() {
        fail!("C15/single-symbol", "single-symbol codebook has codeword {:?}", codewords[0]);
    }
    // out-of-alphabet symbols rejected
    // (fixed corner values plus values that alias an in-alphabet symbol or a node index after
    // shifts, additions of powers of two, truncation or wrap-around)
    let mut probes: Vec<usize> = vec![n, n + 1, 2 * n, 2 * n - 1, 2 * n + 1, usize::MAX, usize::MAX - 1, usize::MAX / 2, usize::MAX / 2 + 1];
    for _ in 0..16 {
        let k = rng.below(n as u64) as usize;
        let b = rng.below(64) as u32;
        let v = match rng.below(7) {
            0 => k | 1usize << b,
            1 => k.wrapping_add(1usize << b),
            2 => (1usize << b).wrapping_sub(k),
            3 => usize::MAX - k,
            4 => k.wrapping_add(n.wrapping_mul(rng.below(1 << 20) as usize + 1)),
            5 => (k >> 1) | 1usize << 63,
            _ => rng.u64() as usize,
        };
        probes.push(v);
    }
    probes.retain(|&v| v >= n);
    run.count("out_of_alphabet_probes", probes.len() as u64);
    for bad in probes {
        match enc.encode_symbol_prefix(bad, |_| Ok::<(), core::convert::Infallible>(())) {
            Err(CoderError::Frontend(DefaultEncoderFrontendError::ImpossibleSymbol)) => {}
            other => fail!("C15/out-of-alphabet-accepted", "symbol {bad} (alphabet size {n}) returned {other:?}"),
        }
        match enc.encode_symbol_suffix(bad, |_| Ok::<(), core::convert::Infallible>(())) {
            Err(CoderError::Frontend(DefaultEncoderFrontendError::ImpossibleSymbol)) => {}
            other => fail!("C15/out-of-alphabet-accepted", "symbol {bad} (alphabet size {n}) returned {other:?} (suffix form)"),
        }
    }
    run.count("codewords_checked", n as u64);
    // NaN weights are reported, not mis-sorted
    if rng.chance(1, 10) {
        let mut f: Vec<f64> = weights.iter().map(|&w| w as f64).collect();
        let k = rng.below(n as u64) as usize;
        f[k] = f64::NAN;
        if EncoderHuffmanTree::from_float_probabilities::<f64, _>(&f) .is_ok() || !matches!(DecoderHuffmanTree::from_float_probabilities::<f64, _>(&f), Err(NanError)) {
            fail!("C15/nan-accepted", "NaN weight at {k} accepted");
        }
        run.count("nan_inputs", 1);
    }
    run.describe(|| desc);
}

pub fn case(run: &mut Run, rng: &mut Rng) {
    if rng.chance(1, 25) {
        case_deep_f64(run, rng)
    } else if rng.chance(1, 5) {
        case_f32(run, rng)
    } else {
        case_inner(run, rng)
    }
}
