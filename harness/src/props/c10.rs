//! C10 — decoding arbitrary or corrupted data is total and stays inside the model.
//!
//! Oracle: no panic / abort / sanitizer report (process status + catch_unwind), only the
//! documented errors, and every returned symbol belongs to the support of the model it was
//! decoded with.

use crate::num::{mask, Num};
use crate::prng::Rng;
use crate::props::c03::*;
use crate::range_rows;
use crate::rangew::row_name;
use crate::report::Run;
use crate::table::*;
use constriction::backends::Cursor;
use constriction::stream::chain::{ChainCoder, DecoderFrontendError as ChainDecErr};
use constriction::stream::model::*;
use constriction::stream::queue::{DecoderFrontendError as RangeDecErr, RangeDecoder, RangeEncoder};
use constriction::stream::stack::AnsCoder;
use constriction::stream::Decode;
use constriction::{CoderError, UnwrapInfallible};
use num_traits::AsPrimitive;

/// Hostile word sequences; optionally derived from a valid stream.
fn gen_garbage<W: Num>(rng: &mut Rng, valid: Option<&[W]>, max_len: usize) -> (Vec<W>, &'static str) {
    let style = rng.below(8);
    if let Some(v) = valid {
        if style >= 4 && !v.is_empty() {
            let mut w = v.to_vec();
            return match style {
                4 => {
                    w.truncate(rng.usize_in(0, w.len()));
                    (w, "truncated-valid-stream")
                }
                5 => {
                    for _ in 0..rng.usize_in(1, 6) {
                        w.push(W::of(rng.edgy(W::NBITS)));
                    }
                    (w, "extended-valid-stream")
                }
                6 => {
                    for _ in 0..rng.usize_in(1, 4) {
                        let i = rng.below(w.len() as u64) as usize;
                        let b = rng.below(W::NBITS as u64) as u32;
                        w[i] = W::of(w[i].as_u() ^ (1u128 << b));
                    }
                    (w, "bit-flipped-valid-stream")
                }
                _ => (w, "valid-stream-wrong-models"),
            };
        }
    }
    let len = rng.usize_in(0, max_len);
    let v: Vec<W> = (0..len)
        .map(|_| match style % 4 {
            0 => W::of(0),
            1 => W::of(mask(W::NBITS)),
            2 => W::of(rng.edgy(W::NBITS)),
            _ => W::of(rng.u128() & mask(W::NBITS)),
        })
        .collect();
    (v, ["all-zero", "all-ones", "edgy-random", "random"][(style % 4) as usize])
}

fn words_desc<W: Num>(v: &[W]) -> String {
    let u: Vec<u128> = v.iter().take(24).map(|x| x.as_u()).collect();
    format!("{:?}{}", u, if v.len() > 24 { "..." } else { "" })
}

fn ans_row<M: ModelSet, S: Num>(run: &mut Run, rng: &mut Rng)
where
    S: AsPrimitive<M::W> + From<M::W>,
{
    let (w, s) = (<M::W as Num>::NBITS, S::NBITS);
    run.h(1 << 60 | w as u64 * 1000 + s as u64);
    run.count(row_name(w, s), 1);
    run.count("ans_cases", 1);
    let zk = rng.usize_in(1, 4);
    let zoo: Vec<M> = gen_zoo(rng, zk, if run.small { 8 } else { 40 });
    // a valid stream to corrupt
    let mut enc: AnsCoder<M::W, S, Vec<M::W>> = AnsCoder::new();
    for _ in 0..rng.usize_in(0, 40) {
        let mi = rng.below(zoo.len() as u64) as usize;
        zoo[mi].ans_encode(&mut enc, pick_symbol(rng, zoo[mi].cdf())).unwrap();
    }
    let valid = enc.into_compressed().unwrap_infallible();
    let (data, kind) = gen_garbage::<M::W>(rng, Some(&valid), 24);
    for x in &data {
        run.h128(x.as_u());
    }
    let desc = format!("ANS W={} S={} [{kind}] {}", <M::W as Num>::NAME, S::NAME, words_desc(&data));
    run.note(|| desc.clone());
    let k = rng.usize_in(1, if run.small { 30 } else { 200 });
    let path = rng.below(4);
    let mut go = |run: &mut Run, rng: &mut Rng, dec: &mut dyn FnMut(&M) -> usize| -> bool {
        for i in 0..k {
            let m = &zoo[rng.below(zoo.len() as u64) as usize];
            let g = dec(m);
            if g >= m.n() {
                run.violation("symbol-outside-model", "C10/ans-symbol-outside-support", format!("{desc} :: decode #{i} with a {}-symbol model (P={}) returned {g}", m.n(), m.prec()));
                return false;
            }
        }
        run.count("ans_symbols_decoded", k as u64);
        true
    };
    let ok = match path {
        0 => {
            let mut c = AnsCoder::<M::W, S, Vec<M::W>>::from_binary(data.clone()).unwrap_infallible();
            go(run, rng, &mut |m| m.ans_decode(&mut c).unwrap_infallible())
        }
        1 => match AnsCoder::<M::W, S, Vec<M::W>>::from_compressed(data.clone()) {
            Ok(mut c) => go(run, rng, &mut |m| m.ans_decode(&mut c).unwrap_infallible()),
            Err(_) => {
                // documented: refused iff the last word is zero
                if data.last().map(|x| x.as_u()) != Some(0) {
                    run.violation("import-refused", "C10/from_compressed-refused", format!("{desc} :: from_compressed refused data whose last word is non-zero"));
                    return;
                }
                run.count("from_compressed_refusals", 1);
                true
            }
        },
        2 => {
            let mut c = AnsCoder::<M::W, S, _>::from_binary_slice(&data);
            go(run, rng, &mut |m| m.ans_decode(&mut c).unwrap_infallible())
        }
        _ => {
            let mut c = AnsCoder::<M::W, S, _>::from_reversed_binary(data.clone());
            go(run, rng, &mut |m| m.ans_decode(&mut c).unwrap_infallible())
        }
    };
    if ok {
        run.nontrivial();
        run.describe(|| desc.clone());
    }
}

fn range_row<M: ModelSet, S: Num>(run: &mut Run, rng: &mut Rng)
where
    S: AsPrimitive<M::W> + From<M::W>,
{
    let (w, s) = (<M::W as Num>::NBITS, S::NBITS);
    run.h(2 << 60 | w as u64 * 1000 + s as u64);
    run.count(row_name(w, s), 1);
    run.count("range_cases", 1);
    let zk = rng.usize_in(1, 4);
    let zoo: Vec<M> = gen_zoo(rng, zk, if run.small { 8 } else { 40 });
    let mut enc: RangeEncoder<M::W, S, Vec<M::W>> = RangeEncoder::new();
    for _ in 0..rng.usize_in(0, 40) {
        let mi = rng.below(zoo.len() as u64) as usize;
        zoo[mi].range_encode(&mut enc, pick_symbol(rng, zoo[mi].cdf())).unwrap();
    }
    let valid = enc.into_compressed().unwrap_infallible();
    let (data, kind) = gen_garbage::<M::W>(rng, Some(&valid), 24);
    for x in &data {
        run.h128(x.as_u());
    }
    let desc = format!("RANGE W={} S={} [{kind}] {}", <M::W as Num>::NAME, S::NAME, words_desc(&data));
    run.note(|| desc.clone());
    let k = rng.usize_in(1, if run.small { 30 } else { 200 });
    let mut dec = RangeDecoder::<M::W, S, _>::from_compressed(&data[..]).unwrap_infallible();
    // mixed precisions on purpose: the documented InvalidData case
    let mut invalid = 0u64;
    for i in 0..k {
        let m = &zoo[rng.below(zoo.len() as u64) as usize];
        match m.range_decode(&mut dec) {
            Ok(g) => {
                if g >= m.n() {
                    run.violation("symbol-outside-model", "C10/range-symbol-outside-support", format!("{desc} :: decode #{i} with a {}-symbol model (P={}) returned {g}", m.n(), m.prec()));
                    return;
                }
            }
            Err(CoderError::Frontend(RangeDecErr::InvalidData)) => {
                invalid += 1;
            }
            Err(e) => {
                run.violation("undocumented-error", "C10/range-undocumented-error", format!("{desc} :: decode #{i} returned {e:?}"));
                return;
            }
        }
    }
    run.count("range_symbols_decoded", k as u64);
    run.count("range_invalid_data_errors", invalid);
    run.nontrivial();
    run.describe(|| desc.clone());
}

fn chain_combo<W, S, Pr, const P: usize>(run: &mut Run, rng: &mut Rng)
where
    W: Num + Into<S> + AsPrimitive<Pr>,
    S: Num + AsPrimitive<W>,
    Pr: Num + Into<W>,
{
    run.h(3 << 60 | W::NBITS as u64 * 1000 + S::NBITS as u64 ^ (P as u64) << 20);
    run.count("chain_cases", 1);
    let zoo: Vec<TableModel<Pr, P>> = (0..rng.usize_in(1, 4)).map(|_| TableModel::new(gen_cdf(rng, P as u32, 40))).collect();
    let (data, kind) = gen_garbage::<W>(rng, None, 24);
    for x in &data {
        run.h128(x.as_u());
    }
    let desc = format!("CHAIN W={} S={} P={} [{kind}] {}", W::NAME, S::NAME, P, words_desc(&data));
    run.note(|| desc.clone());
    let k = rng.usize_in(1, if run.small { 30 } else { 200 });
    let via_compressed = rng.bool();
    let built = if via_compressed {
        ChainCoder::<W, S, Vec<W>, Vec<W>, P>::from_compressed(data.clone())
    } else {
        ChainCoder::<W, S, Vec<W>, Vec<W>, P>::from_binary(data.clone())
    };
    let mut cc = match built {
        Ok(c) => c,
        Err(CoderError::Frontend(_)) => {
            run.count("chain_construction_refusals", 1);
            return;
        }
        Err(CoderError::Backend(e)) => match e {},
    };
    let mut out_of_data = 0u64;
    for i in 0..k {
        let m = &zoo[rng.below(zoo.len() as u64) as usize];
        match cc.decode_symbol(m) {
            Ok(g) => {
                if g >= m.n() {
                    run.violation("symbol-outside-model", "C10/chain-symbol-outside-support", format!("{desc} :: decode #{i} returned {g} for a {}-symbol model", m.n()));
                    return;
                }
            }
            Err(CoderError::Frontend(ChainDecErr::OutOfCompressedData)) => {
                out_of_data += 1;
                break;
            }
            Err(e) => {
                run.violation("undocumented-error", "C10/chain-undocumented-error", format!("{desc} :: decode #{i} returned {e:?}"));
                return;
            }
        }
    }
    run.count("chain_out_of_data", out_of_data);
    run.nontrivial();
    run.describe(|| desc.clone());
}

/// Chain coder over arbitrary words with the precision changed between symbols (up, then back
/// down): same obligations as above; `change_precision` may refuse only with its own documented
/// error value.
fn chain_prec<W, S, Pr1, const P1: usize, Pr2, const P2: usize>(run: &mut Run, rng: &mut Rng)
where
    W: Num + Into<S> + AsPrimitive<Pr1> + AsPrimitive<Pr2>,
    S: Num + AsPrimitive<W>,
    Pr1: Num + Into<W>,
    Pr2: Num + Into<W>,
{
    run.h(5 << 60 | W::NBITS as u64 * 1000 + S::NBITS as u64 ^ (P1 as u64) << 20 ^ (P2 as u64) << 28);
    run.count("chain_precision_change_cases", 1);
    let zoo1: Vec<TableModel<Pr1, P1>> = (0..rng.usize_in(1, 3)).map(|_| TableModel::new(gen_cdf(rng, P1 as u32, 40))).collect();
    let zoo2: Vec<TableModel<Pr2, P2>> = (0..rng.usize_in(1, 3)).map(|_| TableModel::new(gen_cdf(rng, P2 as u32, 40))).collect();
    let (data, kind) = gen_garbage::<W>(rng, None, 24);
    for x in &data {
        run.h128(x.as_u());
    }
    let desc = format!("CHAIN W={} S={} P={}->{}->{} [{kind}] {}", W::NAME, S::NAME, P1, P2, P1, words_desc(&data));
    run.note(|| desc.clone());
    let built = if rng.bool() { ChainCoder::<W, S, Vec<W>, Vec<W>, P1>::from_compressed(data.clone()) } else { ChainCoder::<W, S, Vec<W>, Vec<W>, P1>::from_binary(data.clone()) };
    let cc = match built {
        Ok(c) => c,
        Err(CoderError::Frontend(_)) => {
            run.count("chain_construction_refusals", 1);
            return;
        }
        Err(CoderError::Backend(e)) => match e {},
    };
    macro_rules! phase {
        ($cc:ident, $zoo:ident, $k:expr) => {
            for i in 0..$k {
                let m = &$zoo[rng.below($zoo.len() as u64) as usize];
                match $cc.decode_symbol(m) {
                    Ok(g) => {
                        if g >= m.n() {
                            run.violation("symbol-outside-model", "C10/chain-symbol-outside-support", format!("{desc} :: decode #{i} of a phase returned {g} for a {}-symbol model", m.n()));
                            return;
                        }
                    }
                    Err(CoderError::Frontend(ChainDecErr::OutOfCompressedData)) => {
                        run.count("chain_out_of_data", 1);
                        run.nontrivial();
                        return;
                    }
                    Err(e) => {
                        run.violation("undocumented-error", "C10/chain-undocumented-error", format!("{desc} :: decode #{i} of a phase returned {e:?}"));
                        return;
                    }
                }
            }
        };
    }
    let kmax = if run.small { 6 } else { 24 };
    let (k1, k2, k3) = (rng.usize_in(0, kmax), rng.usize_in(1, kmax), rng.usize_in(1, kmax));
    let mut cc = cc;
    phase!(cc, zoo1, k1);
    let mut cc = match cc.change_precision::<P2>() {
        Ok(c) => c,
        Err(_) => {
            run.count("chain_change_precision_refused", 1);
            return;
        }
    };
    run.count("chain_precision_changes", 1);
    phase!(cc, zoo2, k2);
    let mut cc = match cc.change_precision::<P1>() {
        Ok(c) => c,
        Err(_) => {
            run.count("chain_change_precision_refused", 1);
            return;
        }
    };
    run.count("chain_precision_changes", 1);
    phase!(cc, zoo1, k3);
    run.nontrivial();
    run.describe(|| desc.clone());
}

// --------------------------------------------------------------------------------------------
// library models (lookup tables, lazily quantised, quantised distributions) on preset coders

fn lib_models_small(run: &mut Run, rng: &mut Rng) {
    // SmallAnsCoder / SmallRangeDecoder (u16 words, u32 state) with u16/12-bit models
    run.h(4 << 60);
    run.count("library_model_cases", 1);
    let v: Vec<f64> = gen_float_table(rng, if run.small { 8 } else { 200 });
    let n = v.len();
    let labels: Vec<i32> = (0..n as i32).map(|i| 7 * i - 30).collect();
    let (data, kind) = gen_garbage::<u16>(rng, None, 30);
    for x in &data {
        run.h(*x as u64);
    }
    for x in &v {
        run.h(x.to_bits());
    }
    let desc = format!("small preset [{kind}] {} ; table {}", words_desc(&data), table_desc(&v));
    run.note(|| desc.clone());
    let Ok(eager) = ContiguousCategoricalEntropyModel::<u16, Vec<u16>, 12>::from_floating_point_probabilities_fast(&v, None) else { return };
    let lookup = eager.to_lookup_decoder_model();
    let Ok(lazy) = LazyContiguousCategoricalEntropyModel::<u16, f64, &[f64], 12>::from_floating_point_probabilities_fast(&v[..], None) else { return };
    let Ok(nclookup) = NonContiguousLookupDecoderModel::<i32, u16, Vec<(u16, i32)>, Box<[u16]>, 12>::from_symbols_and_floating_point_probabilities_fast(labels.iter().copied(), &v, None) else { return };
    let Ok(ncdec) = NonContiguousCategoricalDecoderModel::<i32, u16, Vec<(u16, i32)>, 12>::from_symbols_and_floating_point_probabilities_fast(labels.iter().copied(), &v, None) else { return };
    let qc = gen_quantized::<i16, u16, 12>(rng, 3000);
    // narrow symbol types, supports up to the whole type range
    let qc_i8 = gen_quantized::<i8, u16, 12>(rng, 256);
    let qc_u8 = gen_quantized::<u8, u16, 12>(rng, 256);
    // quantised models whose (third-party) CDF is not monotone at the probed points are outside
    // the quantifier ("well-formed models"): do not decode with them
    for (ok, lo, hi, d) in [
        (cdf_precondition_holds(qc.model.inner(), qc.lo, qc.hi).is_ok(), qc.lo, qc.hi, "i16"),
        (cdf_precondition_holds(qc_i8.model.inner(), qc_i8.lo, qc_i8.hi).is_ok(), qc_i8.lo, qc_i8.hi, "i8"),
        (cdf_precondition_holds(qc_u8.model.inner(), qc_u8.lo, qc_u8.hi).is_ok(), qc_u8.lo, qc_u8.hi, "u8"),
    ] {
        if !ok {
            let _ = (lo, hi, d);
            run.count("third_party_cdf_precondition_violated", 1);
            return;
        }
    }
    let uni_range = rng.usize_in(2, 4096);
    let uni = UniformModel::<u16, 12>::new(uni_range);
    let k = if run.small { 20 } else { 150 };
    macro_rules! drive {
        ($dec:expr, $errok:expr) => {{
            let mut d = $dec;
            for i in 0..k {
                let which = rng.below(9);
                macro_rules! chk {
                    ($r:expr, $inside:expr, $name:expr) => {{
                        match $r {
                            Ok(g) => {
                                #[allow(clippy::redundant_closure_call)]
                                if !($inside)(&g) {
                                    run.violation("symbol-outside-model", concat!("C10/library-model-symbol-outside-support/", $name), format!("{desc} :: decode #{i} with {} returned {g:?}", $name));
                                    return;
                                }
                            }
                            Err(e) => {
                                #[allow(clippy::redundant_closure_call)]
                                if !($errok)(&e) {
                                    run.violation("undocumented-error", "C10/undocumented-error", format!("{desc} :: decode #{i} with {} returned {e:?}", $name));
                                    return;
                                }
                            }
                        }
                    }};
                }
                match which {
                    0 => chk!(d.decode_symbol(&eager), |g: &usize| *g < n, "ContiguousCategorical"),
                    1 => chk!(d.decode_symbol(&lookup), |g: &usize| *g < n, "ContiguousLookup"),
                    2 => chk!(d.decode_symbol(&lazy), |g: &usize| *g < n, "LazyContiguousCategorical"),
                    3 => chk!(d.decode_symbol(&nclookup), |g: &i32| labels.contains(g), "NonContiguousLookup"),
                    4 => chk!(d.decode_symbol(&ncdec), |g: &i32| labels.contains(g), "NonContiguousDecoder"),
                    5 => {
                        qc.model.inner().reset();
                        chk!(d.decode_symbol(&qc.model), |g: &i16| (*g as i64) >= qc.lo && (*g as i64) <= qc.hi, "LeakilyQuantizedDistribution")
                    }
                    6 => {
                        qc_i8.model.inner().reset();
                        chk!(d.decode_symbol(&qc_i8.model), |g: &i8| (*g as i64) >= qc_i8.lo && (*g as i64) <= qc_i8.hi, "LeakilyQuantizedDistribution<i8>")
                    }
                    7 => {
                        qc_u8.model.inner().reset();
                        chk!(d.decode_symbol(&qc_u8.model), |g: &u8| (*g as i64) >= qc_u8.lo && (*g as i64) <= qc_u8.hi, "LeakilyQuantizedDistribution<u8>")
                    }
                    _ => chk!(d.decode_symbol(&uni), |g: &usize| *g < uni_range, "UniformModel"),
                }
            }
            run.count("library_model_symbols_decoded", k as u64);
        }};
    }
    match rng.below(3) {
        0 => drive!(AnsCoder::<u16, u32, Vec<u16>>::from_binary(data.clone()).unwrap_infallible(), |_e: &CoderError<core::convert::Infallible, core::convert::Infallible>| false),
        1 => drive!(RangeDecoder::<u16, u32, _>::from_compressed(data.clone()).unwrap_infallible(), |e: &CoderError<RangeDecErr, core::convert::Infallible>| matches!(e, CoderError::Frontend(RangeDecErr::InvalidData))),
        _ => {
            let Ok(cc) = ChainCoder::<u16, u32, Vec<u16>, Vec<u16>, 12>::from_binary(data.clone()) else {
                run.count("chain_construction_refusals", 1);
                return;
            };
            drive!(cc, |e: &CoderError<ChainDecErr, constriction::stream::chain::BackendError<core::convert::Infallible, core::convert::Infallible>>| matches!(e, CoderError::Frontend(ChainDecErr::OutOfCompressedData)))
        }
    }
    run.nontrivial();
    run.describe(|| desc.clone());
}

/// lookup models at an arbitrary (Probability, PRECISION), in particular PRECISION equal to the
/// full width of the Probability type, on u16-word coders
fn lib_models_lookup<Pr, const P: usize>(run: &mut Run, rng: &mut Rng)
where
    Pr: Num + AsPrimitive<usize> + AsPrimitive<f64> + Into<usize> + Into<u16> + Into<f64>,
    usize: AsPrimitive<Pr> + AsPrimitive<f64>,
    f64: AsPrimitive<Pr>,
    u16: AsPrimitive<Pr>,
{
    run.h(6 << 60 | (P as u64) << 8 | Pr::NBITS as u64);
    run.count("library_model_cases", 1);
    run.count("lookup_cases_at_generic_precision", 1);
    let cap = (crate::num::pow2(P as u32) as usize).saturating_sub(2);
    let v: Vec<f64> = gen_float_table(rng, cap.min(if run.small { 8 } else { 100 }));
    let n = v.len();
    let labels: Vec<i32> = (0..n as i32).map(|i| 3 * i + 5).collect();
    let (data, kind) = gen_garbage::<u16>(rng, None, 30);
    for x in &data {
        run.h(*x as u64);
    }
    for x in &v {
        run.h(x.to_bits());
    }
    let desc = format!("lookup models <{},{}> [{kind}] {} ; table {}", Pr::NAME, P, words_desc(&data), table_desc(&v));
    run.note(|| desc.clone());
    let Ok(eager) = ContiguousCategoricalEntropyModel::<Pr, Vec<Pr>, P>::from_floating_point_probabilities_fast(&v, None) else { return };
    let lk_conv = eager.to_lookup_decoder_model();
    let glk = eager.to_generic_lookup_decoder_model();
    let Ok(lk_direct) = ContiguousLookupDecoderModel::<Pr, Vec<Pr>, Box<[Pr]>, P>::from_floating_point_probabilities_fast(&v, None) else { return };
    let Ok(nclk) = NonContiguousLookupDecoderModel::<i32, Pr, Vec<(Pr, i32)>, Box<[Pr]>, P>::from_symbols_and_floating_point_probabilities_fast(labels.iter().copied(), &v, None) else { return };
    let Ok(ncdec) = NonContiguousCategoricalDecoderModel::<i32, Pr, Vec<(Pr, i32)>, P>::from_symbols_and_floating_point_probabilities_fast(labels.iter().copied(), &v, None) else { return };
    let nclk_conv = ncdec.to_lookup_decoder_model();
    let k = if run.small { 20 } else { 120 };
    let mut ans = AnsCoder::<u16, u32, Vec<u16>>::from_binary(data.clone()).unwrap_infallible();
    let mut ans_ref = ans.clone();
    for i in 0..k {
        // all lookup representations of the same table must decode the same symbol as the
        // searched decoder (which also pins membership in the support)
        let which = rng.below(5);
        let expect = ans_ref.decode_symbol(&eager).unwrap_infallible();
        let got: usize = match which {
            0 => ans.decode_symbol(&lk_conv).unwrap_infallible(),
            1 => ans.decode_symbol(&glk).unwrap_infallible(),
            2 => ans.decode_symbol(&lk_direct).unwrap_infallible(),
            3 => {
                let g = ans.decode_symbol(&nclk).unwrap_infallible();
                match labels.iter().position(|&l| l == g) {
                    Some(p) => p,
                    None => usize::MAX,
                }
            }
            _ => {
                let g = ans.decode_symbol(&nclk_conv).unwrap_infallible();
                match labels.iter().position(|&l| l == g) {
                    Some(p) => p,
                    None => usize::MAX,
                }
            }
        };
        if got >= n {
            run.violation("symbol-outside-model", "C10/library-model-symbol-outside-support/lookup", format!("{desc} :: decode #{i} with lookup representation {which} returned a symbol outside the support"));
            return;
        }
        if got != expect {
            // a different in-support symbol is C05's business, not C10's: counted only. (From
            // here on the two coders' states differ; resynchronise.)
            run.count("lookup_disagrees_with_searched_decoder", 1);
            ans_ref = ans.clone();
        }
    }
    run.count("library_model_symbols_decoded", k as u64);
    run.nontrivial();
    run.describe(|| desc.clone());
}

/// Range decoders rebuilt from (possibly corrupted) side information: a state that the
/// validating constructor `RangeCoderState::new` accepts plus a point inside it, or a seek to
/// such a state. Whatever is accepted must then decode totally.
fn range_forged_state_row<M: ModelSet, S: Num>(run: &mut Run, rng: &mut Rng)
where
    S: AsPrimitive<M::W> + From<M::W>,
{
    use constriction::stream::queue::RangeCoderState;
    use constriction::Seek;
    let w = <M::W as Num>::NBITS;
    let s = S::NBITS;
    run.h(7 << 60 | w as u64 * 1000 + s as u64);
    run.count(row_name(w, s), 1);
    run.count("range_forged_state_cases", 1);
    let zoo: Vec<M> = gen_zoo(rng, 3, 40);
    let (data, kind) = gen_garbage::<M::W>(rng, None, 12);
    let mut gen_state = |rng: &mut Rng| -> (S, S, S) {
        let range = match rng.below(8) {
            0 => 1u128,
            1 => rng.below128(1 << 16) + 1,
            2 => crate::num::pow2(s - w) - 1,
            3 => crate::num::pow2(s - w),
            4 => crate::num::pow2(s - w) + rng.below128(4),
            5 => crate::num::mask(s),
            _ => rng.edgy(s) & crate::num::mask(s),
        };
        let lower = rng.edgy(s) & crate::num::mask(s);
        let off = if range == 0 { 0 } else { rng.below128(range) };
        (S::of(lower), S::of(range), S::of(lower.wrapping_add(off) & crate::num::mask(s)))
    };
    let (lower, range, point) = gen_state(rng);
    run.h128(lower.as_u());
    run.h128(range.as_u());
    let desc = format!("RANGE W={w} S={s} decoder from raw parts lower={:#x} range={:#x} point={:#x} over [{kind}] {}", lower.as_u(), range.as_u(), point.as_u(), words_desc(&data));
    run.note(|| desc.clone());
    let Ok(st) = RangeCoderState::<M::W, S>::new(lower, range) else {
        run.count("range_states_refused", 1);
        run.nontrivial();
        return;
    };
    let cur = constriction::backends::Cursor::new_at_pos(data.clone(), rng.usize_in(0, data.len())).unwrap();
    let Ok(mut d) = RangeDecoder::<M::W, S, _>::from_raw_parts(cur, st, point) else {
        run.count("range_raw_parts_refused", 1);
        return;
    };
    run.count("range_states_accepted", 1);
    let k = rng.usize_in(1, if run.small { 10 } else { 40 });
    for i in 0..k {
        let m = &zoo[rng.below(zoo.len() as u64) as usize];
        match m.range_decode(&mut d) {
            Ok(g) => {
                if g >= m.n() {
                    run.violation("symbol-outside-model", "C10/range-symbol-outside-support", format!("{desc} :: decode #{i} returned {g} for a {}-symbol model", m.n()));
                    return;
                }
            }
            Err(CoderError::Frontend(RangeDecErr::InvalidData)) => {
                run.count("range_invalid_data_errors", 1);
            }
            Err(e) => {
                run.violation("undocumented-error", "C10/range-undocumented-error", format!("{desc} :: decode #{i} returned {e:?}"));
                return;
            }
        }
        if rng.chance(1, 6) {
            let (l2, r2, _) = gen_state(rng);
            if let Ok(st2) = RangeCoderState::<M::W, S>::new(l2, r2) {
                if d.seek((rng.usize_in(0, data.len() + 1), st2)).is_ok() {
                    run.count("range_forged_seeks_accepted", 1);
                }
            }
        }
        let _ = d.maybe_exhausted();
    }
    run.count("range_symbols_decoded", k as u64);
    run.nontrivial();
    run.describe(|| desc.clone());
}

/// Lazily quantised categorical models at precisions beyond the float type's mantissa
/// (f32 with PRECISION up to 32, f64 with PRECISION 32) on the coders with u32 words.
macro_rules! lib_models_lazy_fn {
    ($name:ident, $F:ty) => {
fn $name<const P: usize>(run: &mut Run, rng: &mut Rng) {
    type F = $F;
    run.h(8 << 60 | (P as u64) << 8 | F::MANT as u64);
    run.count("library_model_cases", 1);
    run.count("lazy_cases_at_high_precision", 1);
    let v: Vec<F> = gen_float_table(rng, if run.small { 8 } else { 60 });
    let n = v.len();
    let (data, kind) = gen_garbage::<u32>(rng, None, 24);
    for x in &v {
        let y: f64 = (*x).into();
        run.h(y.to_bits());
    }
    let desc = format!("lazy model <u32,{},{}> [{kind}] {} ; table {}", F::FNAME, P, words_desc(&data), table_desc(&v));
    run.note(|| desc.clone());
    let Ok(lazy) = LazyContiguousCategoricalEntropyModel::<u32, F, &[F], P>::from_floating_point_probabilities_fast(&v[..], None) else {
        run.count("lazy_construction_refused", 1);
        return;
    };
    // Arbitrary words almost never put a quantile within a few hundred units of a symbol
    // boundary at these precisions, which is where the float shortcuts of the lazy decoder are
    // at risk. Half of the cases therefore use words that do: with PRECISION == 32 every word
    // of the data is a chunk / the low half of an ANS state, i.e. a quantile.
    let mut data = data;
    if rng.bool() {
        let bounds: Vec<u32> = (0..n).filter_map(|sy| lazy.left_cumulative_and_probability(sy)).map(|(l, _)| l).collect();
        if !bounds.is_empty() {
            for x in data.iter_mut() {
                let b = bounds[rng.below(bounds.len() as u64) as usize];
                // (mostly within the last hundred-odd quantiles below a boundary)
                let d = if rng.chance(3, 4) { rng.below(130) } else { rng.below(600) } as u32;
                *x = if rng.chance(4, 5) { b.wrapping_sub(d) } else { b.wrapping_add(d) };
                if P < 32 {
                    *x &= (1u32 << (P % 32)) - 1;
                }
            }
            run.count("lazy_cases_with_words_near_symbol_boundaries", 1);
        }
    }
    for x in &data {
        run.h(*x as u64);
    }
    let desc = format!("{desc} ; words used {}", words_desc(&data));
    run.note(|| desc.clone());
    let k = if run.small { 20 } else { 150 };
    macro_rules! drive {
        ($dec:expr, $errok:expr) => {{
            let mut d = $dec;
            for i in 0..k {
                match d.decode_symbol(&lazy) {
                    Ok(g) => {
                        if g >= n {
                            run.violation("symbol-outside-model", "C10/library-model-symbol-outside-support/LazyContiguousCategorical", format!("{desc} :: decode #{i} returned {g}"));
                            return;
                        }
                    }
                    Err(e) => {
                        #[allow(clippy::redundant_closure_call)]
                        if !($errok)(&e) {
                            run.violation("undocumented-error", "C10/undocumented-error", format!("{desc} :: decode #{i} returned {e:?}"));
                            return;
                        }
                        break;
                    }
                }
            }
            run.count("library_model_symbols_decoded", k as u64);
        }};
    }
    match rng.below(3) {
        0 => drive!(AnsCoder::<u32, u64, Vec<u32>>::from_binary(data.clone()).unwrap_infallible(), |_e: &CoderError<core::convert::Infallible, core::convert::Infallible>| false),
        1 => drive!(RangeDecoder::<u32, u64, _>::from_compressed(data.clone()).unwrap_infallible(), |e: &CoderError<RangeDecErr, core::convert::Infallible>| matches!(e, CoderError::Frontend(RangeDecErr::InvalidData))),
        _ => {
            let Ok(cc) = ChainCoder::<u32, u64, Vec<u32>, Vec<u32>, P>::from_binary(data.clone()) else {
                run.count("chain_construction_refusals", 1);
                return;
            };
            drive!(cc, |e: &CoderError<ChainDecErr, constriction::stream::chain::BackendError<core::convert::Infallible, core::convert::Infallible>>| matches!(e, CoderError::Frontend(ChainDecErr::OutOfCompressedData)))
        }
    }
    run.nontrivial();
    run.describe(|| desc.clone());
}
    };
}
lib_models_lazy_fn!(lib_models_lazy_f32, f32);
lib_models_lazy_fn!(lib_models_lazy_f64, f64);

/// Uniform models with 64-bit probabilities (PRECISION 40 .. 64) on the coders with u64 words;
/// half of the cases with words placed around bin boundaries (at P = 64 every word is a
/// quantile).
fn lib_uniform_wide<const P: usize>(run: &mut Run, rng: &mut Rng) {
    run.h(10 << 60 | (P as u64) << 8);
    run.count("library_model_cases", 1);
    run.count("uniform_cases_with_64_bit_probabilities", 1);
    let range = match rng.below(4) {
        0 => rng.usize_in(2, 10),
        1 => rng.usize_in(2, 100_000),
        2 => (rng.u64() >> rng.usize_in(24, 62)) as usize + 2,
        _ => (1usize << rng.usize_in(1, 30)) + rng.usize_in(0, 2),
    };
    let range = range.clamp(2, 1usize << (P - 1).min(62));
    let m = UniformModel::<u64, P>::new(range);
    let (mut data, kind) = gen_garbage::<u64>(rng, None, 16);
    if rng.bool() {
        let per_bin = (crate::num::pow2(P as u32) / range as u128) as u64;
        for x in data.iter_mut() {
            let b = (rng.below(range as u64) as u128 * per_bin as u128) as u64;
            let d = rng.below(600);
            *x = if rng.chance(3, 4) { b.wrapping_sub(d) } else { b.wrapping_add(d) };
            if P < 64 {
                *x &= (1u64 << (P % 64)) - 1;
            }
        }
        run.count("uniform_cases_with_words_near_bin_boundaries", 1);
    }
    for x in &data {
        run.h(*x);
    }
    let desc = format!("UniformModel::<u64,{P}>::new({range}) on [{kind}] {}", words_desc(&data));
    run.note(|| desc.clone());
    let k = if run.small { 12 } else { 60 };
    macro_rules! drive {
        ($dec:expr, $errok:expr) => {{
            let mut d = $dec;
            for i in 0..k {
                match d.decode_symbol(&m) {
                    Ok(g) => {
                        if g >= range {
                            run.violation("symbol-outside-model", "C10/library-model-symbol-outside-support/UniformModel64", format!("{desc} :: decode #{i} returned {g}"));
                            return;
                        }
                    }
                    Err(e) => {
                        #[allow(clippy::redundant_closure_call)]
                        if !($errok)(&e) {
                            run.violation("undocumented-error", "C10/undocumented-error", format!("{desc} :: decode #{i} returned {e:?}"));
                            return;
                        }
                        break;
                    }
                }
            }
            run.count("library_model_symbols_decoded", k as u64);
        }};
    }
    match rng.below(3) {
        0 => drive!(AnsCoder::<u64, u128, Vec<u64>>::from_binary(data.clone()).unwrap_infallible(), |_e: &CoderError<core::convert::Infallible, core::convert::Infallible>| false),
        1 => drive!(RangeDecoder::<u64, u128, _>::from_compressed(data.clone()).unwrap_infallible(), |e: &CoderError<RangeDecErr, core::convert::Infallible>| matches!(e, CoderError::Frontend(RangeDecErr::InvalidData))),
        _ => {
            let Ok(cc) = ChainCoder::<u64, u128, Vec<u64>, Vec<u64>, P>::from_binary(data.clone()) else {
                run.count("chain_construction_refusals", 1);
                return;
            };
            drive!(cc, |e: &CoderError<ChainDecErr, constriction::stream::chain::BackendError<core::convert::Infallible, core::convert::Infallible>>| matches!(e, CoderError::Frontend(ChainDecErr::OutOfCompressedData)))
        }
    }
    run.nontrivial();
    run.describe(|| desc.clone());
}

fn lib_models_default(run: &mut Run, rng: &mut Rng) {
    run.h(5 << 60);
    run.count("library_model_cases", 1);
    let v32: Vec<f32> = gen_float_table(rng, if run.small { 8 } else { 300 });
    let n = v32.len();
    let (data, kind) = gen_garbage::<u32>(rng, None, 30);
    for x in &data {
        run.h(*x as u64);
    }
    for x in &v32 {
        run.h(x.to_bits() as u64);
    }
    let desc = format!("default preset [{kind}] {} ; f32 table {}", words_desc(&data), table_desc(&v32));
    run.note(|| desc.clone());
    let Ok(eager) = ContiguousCategoricalEntropyModel::<u32, Vec<u32>, 24>::from_floating_point_probabilities_fast(&v32, None) else { return };
    let Ok(lazy) = LazyContiguousCategoricalEntropyModel::<u32, f32, &[f32], 24>::from_floating_point_probabilities_fast(&v32[..], None) else { return };
    let qc = gen_quantized::<i32, u32, 24>(rng, 4000);
    if cdf_precondition_holds(qc.model.inner(), qc.lo, qc.hi).is_err() {
        run.count("third_party_cdf_precondition_violated", 1);
        return;
    }
    let k = if run.small { 20 } else { 150 };
    let mut ans = AnsCoder::<u32, u64, _>::from_binary(Cursor::new_at_write_end(&data[..])).unwrap_infallible();
    let mut rd = RangeDecoder::<u32, u64, _>::from_compressed(&data[..]).unwrap_infallible();
    for i in 0..k {
        let which = rng.below(3);
        let use_ans = rng.bool();
        macro_rules! one {
            ($m:expr, $inside:expr, $name:expr) => {{
                if use_ans {
                    let g = ans.decode_symbol($m).unwrap_infallible();
                    #[allow(clippy::redundant_closure_call)]
                    if !($inside)(&g) {
                        run.violation("symbol-outside-model", concat!("C10/library-model-symbol-outside-support/", $name), format!("{desc} :: ANS decode #{i} with {} returned {g:?}", $name));
                        return;
                    }
                } else {
                    match rd.decode_symbol($m) {
                        Ok(g) => {
                            #[allow(clippy::redundant_closure_call)]
                            if !($inside)(&g) {
                                run.violation("symbol-outside-model", concat!("C10/library-model-symbol-outside-support/", $name), format!("{desc} :: range decode #{i} with {} returned {g:?}", $name));
                                return;
                            }
                        }
                        Err(CoderError::Frontend(RangeDecErr::InvalidData)) => {}
                        Err(e) => {
                            run.violation("undocumented-error", "C10/undocumented-error", format!("{desc} :: range decode #{i} returned {e:?}"));
                            return;
                        }
                    }
                }
            }};
        }
        match which {
            0 => one!(&eager, |g: &usize| *g < n, "ContiguousCategorical"),
            1 => one!(&lazy, |g: &usize| *g < n, "LazyContiguousCategorical"),
            _ => {
                qc.model.inner().reset();
                one!(&qc.model, |g: &i32| (*g as i64) >= qc.lo && (*g as i64) <= qc.hi, "LeakilyQuantizedDistribution")
            }
        }
    }
    run.count("library_model_symbols_decoded", k as u64);
    run.nontrivial();
    run.describe(|| desc.clone());
}

pub fn case(run: &mut Run, rng: &mut Rng) {
    match rng.below(10) {
        0 | 1 => range_rows!(run, rng, ans_row),
        2 => range_rows!(run, rng, range_row),
        3 => {
            if rng.chance(1, 3) {
                range_rows!(run, rng, range_forged_state_row)
            } else {
                range_rows!(run, rng, range_row)
            }
        }
        4 | 5 => {
            let combos: &[fn(&mut Run, &mut Rng)] = &[
                chain_combo::<u8, u16, u8, 8>,
                chain_combo::<u8, u16, u8, 3>,
                chain_combo::<u8, u32, u8, 7>,
                chain_combo::<u16, u32, u16, 12>,
                chain_combo::<u16, u32, u16, 16>,
                chain_combo::<u16, u64, u8, 8>,
                chain_combo::<u32, u64, u32, 24>,
                chain_combo::<u32, u64, u32, 32>,
                chain_combo::<u32, u64, u16, 1>,
                chain_prec::<u32, u64, u32, 24, u32, 32>,
                chain_prec::<u32, u64, u8, 8, u32, 24>,
                chain_prec::<u32, u64, u16, 1, u32, 32>,
                chain_prec::<u16, u32, u8, 8, u16, 16>,
                chain_prec::<u16, u32, u8, 3, u16, 12>,
                chain_prec::<u8, u16, u8, 3, u8, 8>,
                chain_prec::<u8, u16, u8, 1, u8, 8>,
                chain_prec::<u8, u32, u8, 2, u8, 8>,
                chain_prec::<u16, u64, u8, 5, u16, 16>,
            ];
            let k = rng.below(combos.len() as u64) as usize;
            combos[k](run, rng)
        }
        6 | 7 => lib_models_small(run, rng),
        8 => {
            let combos: &[fn(&mut Run, &mut Rng)] = &[
                lib_models_lookup::<u8, 8>,
                lib_models_lookup::<u16, 16>,
                lib_models_lookup::<u16, 12>,
                lib_models_lookup::<u8, 5>,
                lib_models_lazy_f32::<32>,
                lib_models_lazy_f32::<28>,
                lib_models_lazy_f32::<26>,
                lib_models_lazy_f64::<32>,
                lib_uniform_wide::<40>,
                lib_uniform_wide::<48>,
                lib_uniform_wide::<63>,
                lib_uniform_wide::<64>,
            ];
            let k = rng.below(combos.len() as u64) as usize;
            combos[k](run, rng)
        }
        _ => lib_models_default(run, rng),
    }
}
