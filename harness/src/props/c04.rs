//! C04 — ANS decoding is invertible on arbitrary bits (bits-back / surjectivity).

use crate::num::{mask, Num};
use crate::prng::Rng;
use crate::props::c01::words_u128;
use crate::range_rows;
use crate::rangew::row_name;
use crate::refimpl::RefAns;
use crate::report::Run;
use crate::table::*;
use constriction::backends::{Cursor, Reverse};
use constriction::stream::stack::AnsCoder;
use constriction::stream::Code;
use constriction::UnwrapInfallible;
use num_traits::AsPrimitive;

pub fn gen_data<W: Num>(rng: &mut Rng, max_len: usize) -> Vec<W> {
    let len = match rng.below(8) {
        0 => 0,
        1 => 1,
        2 => 2,
        _ => rng.usize_in(0, max_len),
    };
    let style = rng.below(8);
    let mut v: Vec<W> = (0..len)
        .map(|_| match style {
            0 => W::of(0),
            1 => W::of(mask(W::NBITS)),
            2 => W::of(rng.below(2) as u128 * mask(W::NBITS)),
            3 => W::of(rng.below(3) as u128),
            _ => W::of(rng.edgy(W::NBITS)),
        })
        .collect();
    // zero words adjacent to the (implicit) marker: the end of the data
    if len > 0 && rng.chance(1, 3) {
        let z = rng.usize_in(1, len.min(4));
        for i in 0..z {
            v[len - 1 - i] = W::of(0);
        }
    }
    v
}

fn case_row<M: ModelSet, S: Num>(run: &mut Run, rng: &mut Rng)
where
    S: AsPrimitive<M::W> + From<M::W>,
{
    let w = <M::W as Num>::NBITS;
    let s = S::NBITS;
    run.h(w as u64 * 1000 + s as u64);
    run.count(row_name(w, s), 1);
    let data: Vec<M::W> = gen_data(rng, if run.small { 8 } else { 40 });
    let du = words_u128(&data);
    for x in &du {
        run.h128(*x);
    }
    let k = rng.usize_in(0, if run.small { 20 } else if run.thorough() { 200 } else { 80 });
    let zk = rng.usize_in(1, 4);
    let zoo: Vec<M> = gen_zoo(rng, zk, if run.small { 8 } else { 40 });
    let seq: Vec<usize> = (0..k).map(|_| rng.below(zoo.len() as u64) as usize).collect();
    let ends_in_zero = du.last() == Some(&0);
    if ends_in_zero {
        run.count("data_ends_in_zero_word", 1);
        run.nontrivial();
    }

    macro_rules! fail {
        ($kind:expr, $sig:expr, $($arg:tt)*) => {{
            run.violation($kind, $sig, format!("W={} S={} data={:?} k={k} :: {}", <M::W as Num>::NAME, S::NAME, du, format!($($arg)*)));
            return;
        }};
    }

    let mut coder: AnsCoder<M::W, S, Vec<M::W>> = AnsCoder::from_binary(data.clone()).unwrap_infallible();
    let mut reference = RefAns::from_binary(w, s, &du);
    if coder.num_valid_bits() != du.len() * w as usize {
        fail!("num_valid_bits", "C04/num_valid_bits", "after from_binary: num_valid_bits()={} but data has {} bits", coder.num_valid_bits(), du.len() * w as usize);
    }
    if coder.state().as_u() != reference.head || words_u128(coder.bulk()) != reference.bulk {
        fail!("reference-divergence", "C04/ref-diverges", "from_binary: head {:#x} vs reference {:#x}", coder.state().as_u(), reference.head);
    }
    // borrowed-slice and reversed imports must decode the same symbols
    let mut slice_coder = AnsCoder::<M::W, S, _>::from_binary_slice(&data);
    let mut rev_data = data.clone();
    rev_data.reverse();
    let mut rev_coder: AnsCoder<M::W, S, Reverse<Cursor<M::W, Vec<M::W>>>> = AnsCoder::from_reversed_binary(rev_data);
    // a forward cursor whose buffer is exactly as long as the data: everything has to fit back
    let mut cur_coder: AnsCoder<M::W, S, Cursor<M::W, Vec<M::W>>> = AnsCoder::from_binary(Cursor::new_at_write_end(data.clone())).unwrap_infallible();

    let mut decoded: Vec<usize> = Vec::with_capacity(k);
    let mut went_below = false;
    for (i, &mi) in seq.iter().enumerate() {
        let m = &zoo[mi];
        let sym = match m.ans_decode(&mut coder) {
            Ok(x) => x,
            Err(e) => fail!("decode-failed", "C04/decode-error", "decode #{i} failed: {e:?}"),
        };
        let q = reference.decode(m.prec(), |q| m.cp(m.lookup(q)));
        if m.lookup(q) != sym {
            fail!("reference-divergence", "C04/ref-diverges", "decode #{i}: library symbol {sym}, reference {}", m.lookup(q));
        }
        if coder.state().as_u() != reference.head || coder.bulk().len() != reference.bulk.len() {
            fail!("reference-divergence", "C04/ref-diverges", "after decode #{i}: head {:#x}/{} vs reference {:#x}/{}", coder.state().as_u(), coder.bulk().len(), reference.head, reference.bulk.len());
        }
        let s2 = m.ans_decode(&mut slice_coder).unwrap_infallible();
        let s3 = m.ans_decode(&mut rev_coder).unwrap_infallible();
        let s4 = m.ans_decode(&mut cur_coder).unwrap_infallible();
        if s2 != sym || s3 != sym || s4 != sym {
            fail!("backend-divergence", "C04/backend-diverges", "decode #{i}: Vec backend {sym}, from_binary_slice {s2}, from_reversed_binary {s3}, from_binary(Cursor) {s4}");
        }
        if coder.bulk().is_empty() && coder.state().as_u() < crate::num::pow2(s - w) {
            went_below = true;
        }
        if sym >= m.n() {
            fail!("out-of-support", "C04/symbol-outside-model", "decode #{i} returned symbol {sym} >= {}", m.n());
        }
        decoded.push(sym);
        run.h(sym as u64 ^ (mi as u64) << 32);
    }
    if went_below {
        run.count("decoded_below_bottom", 1);
        run.nontrivial();
    }
    // encode back in reverse order, on both writable backends
    for i in (0..k).rev() {
        let m = &zoo[seq[i]];
        if m.ans_encode(&mut coder, decoded[i]).is_err() {
            fail!("encode-failed", "C04/encode-error", "re-encoding symbol #{i} failed");
        }
        let (cum, p) = m.cp(decoded[i]);
        reference.encode(cum, p, m.prec());
        if m.ans_encode(&mut rev_coder, decoded[i]).is_err() {
            fail!("encode-failed", "C04/encode-error", "re-encoding symbol #{i} on the reversed cursor failed (out of space?)");
        }
        if m.ans_encode(&mut cur_coder, decoded[i]).is_err() {
            fail!("encode-failed", "C04/encode-error", "re-encoding symbol #{i} on the exactly-fitting cursor failed (out of space?)");
        }
    }
    run.count("symbols_decoded_and_reencoded", k as u64);
    if coder.state().as_u() != reference.head || words_u128(coder.bulk()) != reference.bulk {
        fail!("reference-divergence", "C04/ref-diverges", "after re-encoding: head {:#x} vs reference {:#x}", coder.state().as_u(), reference.head);
    }
    if coder.num_valid_bits() != du.len() * w as usize {
        fail!("num_valid_bits", "C04/num_valid_bits", "after restoring: num_valid_bits()={} but data has {} bits", coder.num_valid_bits(), du.len() * w as usize);
    }
    // borrowing accessor
    {
        match coder.get_binary() {
            Ok(g) => {
                let got = words_u128(&g);
                if got != du {
                    fail!("get_binary", "C04/get_binary-mismatch", "get_binary() = {:?}", got);
                }
            }
            Err(e) => fail!("get_binary", "C04/get_binary-mismatch", "get_binary() failed: {e:?}"),
        }
    }
    // it must be undone
    if coder.state().as_u() != reference.head || words_u128(coder.bulk()) != reference.bulk {
        fail!("get_binary", "C04/get_binary-not-undone", "dropping the get_binary view changed the coder");
    }
    // consuming accessor
    match coder.into_binary() {
        Ok(b) => {
            let got = words_u128(&b);
            if got != du {
                let sig = if ends_in_zero && got.len() < du.len() && du[..got.len()] == got[..] && du[got.len()..].iter().all(|&x| x == 0) {
                    "C04/into_binary-drops-trailing-zero-words"
                } else {
                    "C04/into_binary-mismatch"
                };
                fail!("into_binary", sig, "into_binary() = {:?}", got);
            }
        }
        Err(e) => fail!("into_binary", "C04/into_binary-mismatch", "into_binary() failed: {e:?}"),
    }
    // reversed cursor: consuming accessor, buffer must hold the reversed data again
    match rev_coder.into_binary() {
        Ok(Reverse(cur)) => {
            let (buf, pos) = cur.into_buf_and_pos();
            let mut got = words_u128(&buf[pos..]);
            got.reverse();
            if got != du {
                let sig = if ends_in_zero && got.len() < du.len() && du[..got.len()] == got[..] {
                    "C04/into_binary-drops-trailing-zero-words"
                } else {
                    "C04/into_binary-mismatch"
                };
                fail!("into_binary", sig, "reversed-cursor into_binary() leaves {:?} (pos={pos})", got);
            }
        }
        Err(e) => fail!("into_binary", "C04/into_binary-mismatch", "reversed-cursor into_binary() failed: {e:?}"),
    }
    // exactly-fitting forward cursor: consuming accessor
    match cur_coder.into_binary() {
        Ok(cur) => {
            let (buf, pos) = cur.into_buf_and_pos();
            let got = words_u128(&buf[..pos]);
            if got != du {
                fail!("into_binary", "C04/into_binary-mismatch", "exactly-fitting cursor: into_binary() leaves {:?} (pos={pos})", got);
            }
        }
        Err(e) => fail!("into_binary", "C04/into_binary-mismatch", "exactly-fitting cursor: into_binary() failed: {e:?} (data of {} words)", du.len()),
    }
    let expect_ref = reference.binary();
    if expect_ref.as_deref() != Some(&du[..]) {
        fail!("harness", "C04/harness-reference-bug", "reference binary export {:?}", expect_ref);
    }
    run.describe(|| format!("W={} S={} data={:?} decode/encode {} symbols with precisions {:?}", <M::W as Num>::NAME, S::NAME, du, k, seq.iter().take(20).map(|&i| zoo[i].prec()).collect::<Vec<_>>()));
}

pub fn case(run: &mut Run, rng: &mut Rng) {
    range_rows!(run, rng, case_row)
}
