//! C09 — impossible symbols are rejected and a failed encode leaves the coder intact.

use crate::num::Num;
use crate::obsbackend::FaultyBackend;
use crate::prng::Rng;
use crate::props::c01::words_u128;
use crate::props::c03::*;
use crate::report::Run;
use crate::table::*;
use constriction::backends::Cursor;
use constriction::stream::chain::{ChainCoder, EncoderFrontendError};
use constriction::stream::model::*;
use constriction::stream::queue::{RangeDecoder, RangeEncoder};
use constriction::stream::stack::AnsCoder;
use constriction::stream::{Code, Decode, Encode};
use constriction::symbol::huffman::{DecoderHuffmanTree, EncoderHuffmanTree};
use constriction::symbol::{QueueEncoder, ReadBitStream, StackCoder, WriteBitStream};
use constriction::{CoderError, DefaultEncoderFrontendError, UnwrapInfallible};
use core::fmt::Debug;
use num_traits::AsPrimitive;

/// Interleave in-support symbols and impossible symbols on ANS, range and chain coders
/// (u32 words, u64 state). `E` encodes, `D` decodes (may be the same model).
fn history<E, D, const P: usize>(
    run: &mut Run,
    rng: &mut Rng,
    enc: &E,
    dec: &D,
    inside: &[E::Symbol],
    outside: &[E::Symbol],
    desc: &str,
) -> bool
where
    E: EncoderModel<P>,
    D: DecoderModel<P, Symbol = E::Symbol, Probability = E::Probability>,
    E::Symbol: Clone + PartialEq + Debug,
    E::Probability: Into<u32>,
    u32: AsPrimitive<E::Probability>,
{
    let n = rng.usize_in(1, if run.small { 12 } else { 60 });
    let mut ans: AnsCoder<u32, u64, Vec<u32>> = AnsCoder::new();
    let mut rc: RangeEncoder<u32, u64, Vec<u32>> = RangeEncoder::new();
    let mut msg: Vec<E::Symbol> = Vec::new();
    macro_rules! fail {
        ($sig:expr, $($arg:tt)*) => {{
            run.violation("impossible-symbol", $sig, format!("{desc} :: {}", format!($($arg)*)));
            return false;
        }};
    }
    for _ in 0..n {
        // some impossible attempts first
        if !outside.is_empty() && rng.bool() {
            for _ in 0..rng.usize_in(1, 3) {
                let bad = rng.pick(outside).clone();
                run.count("impossible_symbols_tried", 1);
                // the model itself
                if let Some((c, p)) = enc.left_cumulative_and_probability(bad.clone()) {
                    use constriction::NonZeroBitArray;
                    let (c, p): (u32, u32) = (c.into(), p.get().into());
                    fail!("C09/out-of-support-symbol-has-probability", "model assigns (cum {c}, p {p}) to out-of-support symbol {bad:?}");
                }
                // ANS
                let before = (ans.bulk().clone(), ans.state());
                match ans.encode_symbol(bad.clone(), enc) {
                    Err(CoderError::Frontend(DefaultEncoderFrontendError::ImpossibleSymbol)) => {}
                    other => fail!("C09/ans-accepts-impossible-symbol", "AnsCoder::encode_symbol({bad:?}) returned {other:?}"),
                }
                if ans.bulk() != &before.0 || ans.state() != before.1 {
                    fail!("C09/ans-changed-by-failed-encode", "AnsCoder changed by the failed encode of {bad:?}");
                }
                // range
                let before = rc.clone().into_raw_parts();
                match rc.encode_symbol(bad.clone(), enc) {
                    Err(CoderError::Frontend(DefaultEncoderFrontendError::ImpossibleSymbol)) => {}
                    other => fail!("C09/range-accepts-impossible-symbol", "RangeEncoder::encode_symbol({bad:?}) returned {other:?}"),
                }
                let after = rc.clone().into_raw_parts();
                if before.0 != after.0 || before.1 != after.1 || before.2 != after.2 {
                    fail!("C09/range-changed-by-failed-encode", "RangeEncoder changed by the failed encode of {bad:?}");
                }
            }
        }
        let s = rng.pick(inside).clone();
        if ans.encode_symbol(s.clone(), enc).is_err() {
            fail!("C09/in-support-symbol-rejected", "AnsCoder rejected in-support symbol {s:?}");
        }
        if rc.encode_symbol(s.clone(), enc).is_err() {
            fail!("C09/in-support-symbol-rejected", "RangeEncoder rejected in-support symbol {s:?}");
        }
        msg.push(s);
    }
    // everything encoded before the failures still decodes
    for (i, s) in msg.iter().enumerate().rev() {
        let g = ans.decode_symbol(dec).unwrap_infallible();
        if &g != s {
            fail!("C09/ans-roundtrip-after-failed-encodes", "ANS pop #{i} gave {g:?}, expected {s:?}");
        }
    }
    if !ans.is_empty() {
        fail!("C09/ans-roundtrip-after-failed-encodes", "ANS coder not empty after popping everything");
    }
    let words = rc.into_compressed().unwrap_infallible();
    let mut rd = RangeDecoder::<u32, u64, _>::from_compressed(words).unwrap_infallible();
    for (i, s) in msg.iter().enumerate() {
        match rd.decode_symbol(dec) {
            Ok(g) if &g == s => {}
            other => fail!("C09/range-roundtrip-after-failed-encodes", "range symbol #{i}: {other:?}, expected {s:?}"),
        }
    }
    run.count("symbols_roundtripped", 2 * msg.len() as u64);

    // chain coder: decode k symbols from random data, then encode them back in reverse with
    // impossible attempts in between; the data must be restored
    let data: Vec<u32> = (0..rng.usize_in(6, 24)).map(|_| rng.u64() as u32).collect();
    if let Ok(mut cc) = ChainCoder::<u32, u64, Vec<u32>, Vec<u32>, P>::from_binary(data.clone()) {
        let mut decoded = Vec::new();
        for _ in 0..rng.usize_in(1, 12) {
            match cc.decode_symbol(dec) {
                Ok(s) => decoded.push(s),
                Err(_) => break,
            }
        }
        for s in decoded.iter().rev() {
            if !outside.is_empty() && rng.bool() {
                let bad = rng.pick(outside).clone();
                let before = cc.state().verif_parts();
                match cc.encode_symbol(bad.clone(), enc) {
                    Err(CoderError::Frontend(EncoderFrontendError::ImpossibleSymbol)) => {}
                    other => fail!("C09/chain-accepts-impossible-symbol", "ChainCoder::encode_symbol({bad:?}) returned {other:?}"),
                }
                if cc.state().verif_parts() != before {
                    fail!("C09/chain-changed-by-failed-encode", "ChainCoder heads changed by the failed encode of {bad:?}");
                }
                run.count("impossible_symbols_tried", 1);
            }
            if let Err(e) = cc.encode_symbol(s.clone(), enc) {
                fail!("C09/chain-roundtrip-after-failed-encodes", "re-encoding {s:?} failed: {e:?}");
            }
        }
        match cc.into_binary() {
            Ok((_, restored)) => {
                if restored != data {
                    fail!("C09/chain-roundtrip-after-failed-encodes", "chain coder restored {:?} instead of {:?}", restored, data);
                }
            }
            Err(_) => fail!("C09/chain-roundtrip-after-failed-encodes", "into_binary failed after re-encoding"),
        }
        run.count("chain_roundtrips", 1);
    }
    true
}

fn uniform_case<Pr, const P: usize>(run: &mut Run, rng: &mut Rng)
where
    Pr: Num + AsPrimitive<usize> + Into<u32>,
    usize: AsPrimitive<Pr>,
    u32: AsPrimitive<Pr>,
{
    run.count("uniform_models", 1);
    let total = crate::num::pow2(P as u32) as usize;
    let range = rng.usize_in(2, total.min(5000));
    run.h(range as u64 ^ (P as u64) << 50 ^ 0xC9 << 40);
    let m = UniformModel::<Pr, P>::new(range);
    let inside: Vec<usize> = (0..8).map(|_| rng.below(range as u64) as usize).chain([0, range - 1]).collect();
    let bits = Pr::NBITS;
    let mut outside = vec![range, range + 1, usize::MAX, usize::MAX - 1, 1usize << 63];
    for &s in inside.iter().take(4) {
        for k in 1..4usize {
            outside.push(s + (k << bits)); // aliases s after narrowing to Probability
        }
        outside.push(s + (1usize << 16));
        outside.push(s + (1usize << 32));
        outside.push(s + (1usize << P));
    }
    // in-support values with one or several arbitrary higher bits set (any bit position from
    // PRECISION up to the top of usize): every window of bits a range check might look at
    for _ in 0..12 {
        let s = inside[rng.below(inside.len() as u64) as usize];
        let b1 = rng.usize_in(P.min(63), 63);
        let mut v = s | 1usize << b1;
        if rng.bool() {
            v |= 1usize << rng.usize_in(P.min(63), 63);
        }
        if rng.chance(1, 4) {
            v |= (rng.u64() as usize) << P.min(63);
        }
        outside.push(v);
    }
    outside.retain(|&s| s >= range);
    run.count("aliasing_symbols_generated", outside.len() as u64);
    run.nontrivial();
    let desc = format!("UniformModel::<{},{}>::new({range})", Pr::NAME, P);
    run.note(|| desc.clone());
    if !history::<_, _, P>(run, rng, &m, &m, &inside, &outside, &desc) {
        return;
    }
    // the generic encoder / decoder models converted from it reject the same symbols
    if range <= 600 {
        let ge = m.to_generic_encoder_model();
        let gd = m.to_generic_decoder_model();
        let desc2 = format!("{desc}.to_generic_encoder_model() / to_generic_decoder_model()");
        if !history::<_, _, P>(run, rng, &ge, &gd, &inside, &outside, &desc2) {
            return;
        }
        run.count("generic_conversions_probed", 1);
    }
    run.describe(|| desc);
}

fn categorical_case<Pr, const P: usize>(run: &mut Run, rng: &mut Rng)
where
    Pr: Num + AsPrimitive<usize> + AsPrimitive<f64> + Into<u32>,
    usize: AsPrimitive<Pr> + AsPrimitive<f64>,
    f64: AsPrimitive<Pr>,
    u32: AsPrimitive<Pr>,
{
    run.count("categorical_models", 1);
    let cap = (crate::num::pow2(P as u32) as usize).saturating_sub(2);
    let v: Vec<f64> = gen_float_table(rng, cap.min(if run.small { 8 } else { 100 }));
    let n = v.len();
    for x in &v {
        run.h(x.to_bits());
    }
    run.h(P as u64 ^ 0xCA << 44);
    let desc = format!("<{},f64,{}> table {}", Pr::NAME, P, table_desc(&v));
    run.note(|| desc.clone());
    let inside: Vec<usize> = (0..8).map(|_| rng.below(n as u64) as usize).chain([0, n - 1]).collect();
    let bits = Pr::NBITS;
    let mut outside = vec![n, n + 1, usize::MAX, 1usize << 63];
    for &s in inside.iter().take(4) {
        outside.push(s + (1usize << bits));
        outside.push(s + (1usize << 16));
        outside.push(s + (1usize << 32));
    }
    outside.retain(|&s| s >= n);
    run.count("aliasing_symbols_generated", outside.len() as u64);
    run.nontrivial();
    let Ok(eager) = ContiguousCategoricalEntropyModel::<Pr, Vec<Pr>, P>::from_floating_point_probabilities_fast(&v, None) else { return };
    if !history::<_, _, P>(run, rng, &eager, &eager, &inside, &outside, &format!("ContiguousCategorical {desc}")) {
        return;
    }
    if let Ok(lazy) = LazyContiguousCategoricalEntropyModel::<Pr, f64, &[f64], P>::from_floating_point_probabilities_fast(&v[..], None) {
        if !history::<_, _, P>(run, rng, &lazy, &lazy, &inside, &outside, &format!("LazyContiguousCategorical {desc}")) {
            return;
        }
    }
    // hash-table encoder with sparse labels, decoded by the matching decoder model
    let labels: Vec<i32> = (0..n as i32).map(|i| 5 * i - 11).collect();
    if let (Ok(e), Ok(d)) = (
        NonContiguousCategoricalEncoderModel::<i32, Pr, P>::from_symbols_and_floating_point_probabilities_fast(labels.iter().copied(), &v, None),
        NonContiguousCategoricalDecoderModel::<i32, Pr, Vec<(Pr, i32)>, P>::from_symbols_and_floating_point_probabilities_fast(labels.iter().copied(), &v, None),
    ) {
        let ins: Vec<i32> = inside.iter().map(|&i| labels[i]).collect();
        let outs: Vec<i32> = vec![-12, -10, 5 * n as i32 - 11, i32::MIN, i32::MAX, 0 - 11 + 1, labels[n - 1] + 1];
        let outs: Vec<i32> = outs.into_iter().filter(|s| !labels.contains(s)).collect();
        if !history::<_, _, P>(run, rng, &e, &d, &ins, &outs, &format!("NonContiguous encoder/decoder {desc}")) {
            return;
        }
    }
    run.describe(|| desc);
}

fn quant_case<S, Pr, const P: usize>(run: &mut Run, rng: &mut Rng)
where
    S: SymT + AsPrimitive<Pr>,
    Pr: Num + Into<f64> + Into<u32>,
    f64: AsPrimitive<Pr> + AsPrimitive<S>,
    u32: AsPrimitive<Pr>,
{
    run.count("quantized_models", 1);
    let qc = gen_quantized::<S, Pr, P>(rng, if run.small { 30 } else { 2000 });
    let (lo, hi) = (qc.lo, qc.hi);
    let desc = format!("LeakyQuantizer<f64,{},{},{}>({lo}..={hi}).quantize({})", S::SNAME, Pr::NAME, P, qc.model.inner().describe());
    run.h(hash_str(&desc));
    run.note(|| desc.clone());
    if cdf_precondition_holds(qc.model.inner(), lo, hi).is_err() {
        return;
    }
    // skip models that C03 would flag (their validity is C03's business)
    if crate::modelcheck::table_via_encoder::<_, P>(&qc.model, (lo..=hi).map(sym_from::<S>)).is_err() {
        run.count("skipped_invalid_base_model", 1);
        return;
    }
    qc.model.inner().reset();
    let inside: Vec<S> = (0..8).map(|_| sym_from::<S>(lo + rng.below((hi - lo + 1) as u64) as i64)).chain([sym_from::<S>(lo), sym_from::<S>(hi)]).collect();
    let outside = outside_symbols::<S>(rng, lo, hi);
    if !outside.is_empty() {
        run.nontrivial();
    }
    struct Reset<'a, S, Pr, const P: usize>(&'a QModel<S, Pr, P>);
    impl<S, Pr: Num, const P: usize> EntropyModel<P> for Reset<'_, S, Pr, P> {
        type Symbol = S;
        type Probability = Pr;
    }
    impl<S, Pr, const P: usize> EncoderModel<P> for Reset<'_, S, Pr, P>
    where
        S: SymT + AsPrimitive<Pr>,
        Pr: Num + Into<f64>,
        f64: AsPrimitive<Pr> + AsPrimitive<S>,
    {
        fn left_cumulative_and_probability(&self, s: impl core::borrow::Borrow<S>) -> Option<(Pr, <Pr as constriction::BitArray>::NonZero)> {
            self.0.inner().reset();
            self.0.left_cumulative_and_probability(s)
        }
    }
    impl<S, Pr, const P: usize> DecoderModel<P> for Reset<'_, S, Pr, P>
    where
        S: SymT + AsPrimitive<Pr>,
        Pr: Num + Into<f64>,
        f64: AsPrimitive<Pr> + AsPrimitive<S>,
    {
        fn quantile_function(&self, q: Pr) -> (S, Pr, <Pr as constriction::BitArray>::NonZero) {
            self.0.inner().reset();
            self.0.quantile_function(q)
        }
    }
    let m = Reset(&qc.model);
    if history::<_, _, P>(run, rng, &m, &m, &inside, &outside, &desc) {
        run.describe(|| desc);
    }
}

// --------------------------------------------------------------------------------------------
// Huffman on the bit-level coders

fn huffman_case(run: &mut Run, rng: &mut Rng) {
    run.count("huffman_cases", 1);
    let n = rng.usize_in(1, if run.small { 8 } else { 60 });
    let weights: Vec<u32> = (0..n).map(|_| rng.below(20) as u32).collect();
    for w in &weights {
        run.h(*w as u64);
    }
    run.h(0x4FF << 40);
    run.nontrivial();
    let enc = EncoderHuffmanTree::from_probabilities::<u32, _>(&weights);
    let dec = DecoderHuffmanTree::from_probabilities::<u32, _>(&weights);
    let desc = format!("Huffman weights {:?}", weights);
    let mut st = StackCoder::<u32>::new();
    let mut st_twin = StackCoder::<u32>::new();
    let mut qu = QueueEncoder::<u32>::new();
    let mut qu_twin = QueueEncoder::<u32>::new();
    let mut msg = Vec::new();
    for _ in 0..rng.usize_in(1, 40) {
        if rng.bool() {
            let bad = *rng.pick(&[n, n + 1, usize::MAX, n + (1 << 32), 2 * n]);
            run.count("impossible_symbols_tried", 1);
            let l0 = st.len();
            match st.encode_symbol(bad, &enc) {
                Err(CoderError::Frontend(DefaultEncoderFrontendError::ImpossibleSymbol)) => {}
                other => {
                    run.violation("impossible-symbol", "C09/huffman-accepts-impossible-symbol", format!("{desc} :: StackCoder::encode_symbol({bad}) returned {other:?}"));
                    return;
                }
            }
            let q0 = qu.len();
            match qu.encode_symbol(bad, &enc) {
                Err(CoderError::Frontend(DefaultEncoderFrontendError::ImpossibleSymbol)) => {}
                other => {
                    run.violation("impossible-symbol", "C09/huffman-accepts-impossible-symbol", format!("{desc} :: QueueEncoder::encode_symbol({bad}) returned {other:?}"));
                    return;
                }
            }
            if st.len() != l0 || qu.len() != q0 {
                run.violation("impossible-symbol", "C09/huffman-changed-by-failed-encode", format!("{desc} :: bit coder length changed by the failed encode of {bad}"));
                return;
            }
        }
        let s = rng.below(n as u64) as usize;
        st.encode_symbol(s, &enc).unwrap();
        st_twin.encode_symbol(s, &enc).unwrap();
        qu.encode_symbol(s, &enc).unwrap();
        qu_twin.encode_symbol(s, &enc).unwrap();
        msg.push(s);
    }
    let a = st.get_compressed().to_vec();
    let b = st_twin.get_compressed().to_vec();
    let c = qu.get_compressed().to_vec();
    let d = qu_twin.get_compressed().to_vec();
    if a != b || c != d {
        run.violation("impossible-symbol", "C09/huffman-changed-by-failed-encode", format!("{desc} :: output differs from the twin that saw no failed encodes: {:?} vs {:?} / {:?} vs {:?}", a, b, c, d));
        return;
    }
    for (i, &s) in msg.iter().enumerate().rev() {
        match st.decode_symbol(&dec) {
            Ok(g) if g == s => {}
            other => {
                run.violation("impossible-symbol", "C09/huffman-roundtrip-after-failed-encodes", format!("{desc} :: stack symbol #{i}: {other:?} expected {s}"));
                return;
            }
        }
    }
    let mut qd = qu.into_decoder().unwrap_infallible();
    for (i, &s) in msg.iter().enumerate() {
        match qd.decode_symbol(&dec) {
            Ok(g) if g == s => {}
            other => {
                run.violation("impossible-symbol", "C09/huffman-roundtrip-after-failed-encodes", format!("{desc} :: queue symbol #{i}: {other:?} expected {s}"));
                return;
            }
        }
    }
    run.describe(|| desc);
}

// --------------------------------------------------------------------------------------------
// ANS: failed writes. Fault plan: every write index k of the fault-free run, and every capacity.

fn fault_case<M: ModelSet, S: Num>(run: &mut Run, rng: &mut Rng)
where
    S: AsPrimitive<M::W> + From<M::W>,
{
    run.count("fault_plans", 1);
    let w = <M::W as Num>::NBITS;
    run.h(w as u64 * 1000 + S::NBITS as u64 ^ 0xFA << 48);
    let n = rng.usize_in(1, if run.small { 12 } else { 50 });
    let zk = rng.usize_in(1, 3);
    let zoo: Vec<M> = gen_zoo(rng, zk, 24);
    let msg: Vec<(usize, usize)> = (0..n)
        .map(|_| {
            let mi = rng.below(zoo.len() as u64) as usize;
            (mi, pick_symbol(rng, zoo[mi].cdf()))
        })
        .collect();
    for &(mi, s) in &msg {
        run.h(s as u64 ^ (mi as u64) << 40);
    }
    // fault-free run: number of writes
    let mut free: AnsCoder<M::W, S, FaultyBackend<M::W>> = AnsCoder::from_raw_parts(FaultyBackend::new(None, None), S::of(0));
    for &(mi, s) in &msg {
        zoo[mi].ans_encode(&mut free, s).expect("fault-free encode");
    }
    let total_writes = free.bulk().writes_attempted;
    let reference: Vec<M::W> = free.bulk().v.clone();
    let ref_state = free.state();
    let desc = format!("ANS W={} S={} message of {n} symbols, {total_writes} words flushed", <M::W as Num>::NAME, S::NAME);
    run.note(|| desc.clone());
    if total_writes > 0 {
        run.nontrivial();
    }
    macro_rules! fail {
        ($sig:expr, $($arg:tt)*) => {{
            run.violation("failed-write", $sig, format!("{desc} :: {}", format!($($arg)*)));
            return;
        }};
    }
    for k in 1..=total_writes {
        // (1) one-shot failure of write k
        let mut c: AnsCoder<M::W, S, FaultyBackend<M::W>> = AnsCoder::from_raw_parts(FaultyBackend::new(Some(k), None), S::of(0));
        let mut failed_at = None;
        for (i, &(mi, s)) in msg.iter().enumerate() {
            let before = (c.bulk().v.clone(), c.state());
            match zoo[mi].ans_encode(&mut c, s) {
                Ok(()) => {}
                Err(CoderError::Backend(_)) => {
                    if c.bulk().v != before.0 || c.state() != before.1 {
                        fail!("C09/ans-changed-by-failed-write", "write #{k} failed during symbol #{i}: coder changed (state {:#x} -> {:#x}, bulk {} -> {} words)", before.1.as_u(), c.state().as_u(), before.0.len(), c.bulk().v.len());
                    }
                    failed_at = Some(i);
                    break;
                }
                Err(e) => fail!("C09/ans-wrong-error-on-failed-write", "write #{k}: unexpected error {e:?}"),
            }
        }
        let Some(j) = failed_at else {
            fail!("C09/harness-fault-not-hit", "fault at write #{k} never triggered");
        };
        run.count("write_faults_injected", 1);
        // (a) decode everything encoded before the failure
        let mut a = c.clone();
        for i in (0..j).rev() {
            let (mi, s) = msg[i];
            let g = zoo[mi].ans_decode(&mut a).unwrap_infallible();
            if g != s {
                fail!("C09/ans-roundtrip-after-failed-write", "after failed write #{k} (symbol #{j}): pop #{i} gave {g}, expected {s}");
            }
        }
        if !a.is_empty() {
            fail!("C09/ans-roundtrip-after-failed-write", "after failed write #{k}: coder not empty after popping {j} symbols");
        }
        // (b) the fault was transient: continue encoding, result must equal the fault-free run
        for &(mi, s) in &msg[j..] {
            if zoo[mi].ans_encode(&mut c, s).is_err() {
                fail!("C09/ans-cannot-continue-after-failed-write", "encoding does not continue after failed write #{k}");
            }
        }
        if c.bulk().v != reference || c.state() != ref_state {
            fail!("C09/ans-cannot-continue-after-failed-write", "after failed write #{k} and continuing, the coder differs from the fault-free run");
        }
    }
    // (2) bounded sinks of every capacity
    let needed = reference.len();
    for cap in 0..=needed {
        let mut buf: Vec<M::W> = vec![<M::W as Num>::of(0); cap];
        let mut c: AnsCoder<M::W, S, Cursor<M::W, &mut [M::W]>> = AnsCoder::from_raw_parts(Cursor::new_at_write_beginning(&mut buf[..]), S::of(0));
        let mut encoded = 0usize;
        for &(mi, s) in &msg {
            let st = c.state();
            match zoo[mi].ans_encode(&mut c, s) {
                Ok(()) => encoded += 1,
                Err(CoderError::Backend(_)) => {
                    if c.state() != st {
                        fail!("C09/ans-changed-by-failed-write", "capacity {cap}: state changed by the failed encode of symbol #{encoded}");
                    }
                    break;
                }
                Err(e) => fail!("C09/ans-wrong-error-on-failed-write", "capacity {cap}: unexpected error {e:?}"),
            }
        }
        if cap == needed && encoded != n {
            fail!("C09/ans-full-too-early", "capacity {cap} = words needed, but only {encoded} of {n} symbols fit");
        }
        if cap < needed && encoded == n {
            fail!("C09/harness-capacity", "capacity {cap} < {needed} but everything fit");
        }
        run.count("bounded_sink_runs", 1);
        for i in (0..encoded).rev() {
            let (mi, s) = msg[i];
            let g = zoo[mi].ans_decode(&mut c).unwrap_infallible();
            if g != s {
                fail!("C09/ans-roundtrip-after-failed-write", "capacity {cap}: after the sink filled up at symbol #{encoded}, pop #{i} gave {g}, expected {s}");
            }
        }
    }
    // (3) the same write faults hit in the middle of a BATCH encode: the coder must be left exactly
    //     as the per-symbol loop leaves it (everything encoded before the failing symbol is on the
    //     coder, nothing of the failing one), for every batch entry point
    {
        let m0 = &zoo[0];
        let n2 = rng.usize_in(2, if run.small { 10 } else { 40 });
        let syms: Vec<usize> = (0..n2).map(|_| pick_symbol(rng, m0.cdf())).collect();
        let items: Vec<(usize, &M)> = syms.iter().map(|&s| (s, m0)).collect();
        let forms = [EncForm::Symbols, EncForm::SymbolsReverse, EncForm::Iid, EncForm::IidReverse, EncForm::TrySymbols, EncForm::TrySymbolsReverse];
        let form = forms[rng.below(forms.len() as u64) as usize];
        let reversed = matches!(form, EncForm::SymbolsReverse | EncForm::IidReverse | EncForm::TrySymbolsReverse);
        let order: Vec<(usize, &M)> = if reversed { items.iter().rev().cloned().collect() } else { items.clone() };
        let mut free: AnsCoder<M::W, S, FaultyBackend<M::W>> = AnsCoder::from_raw_parts(FaultyBackend::new(None, None), S::of(0));
        if M::ans_encode_many(&mut free, &order, EncForm::Loop, None) != BatchOutcome::Ok {
            fail!("C09/harness-batch", "fault-free per-symbol loop failed");
        }
        let tw = free.bulk().writes_attempted;
        for k in 1..=tw {
            let mut twin: AnsCoder<M::W, S, FaultyBackend<M::W>> = AnsCoder::from_raw_parts(FaultyBackend::new(Some(k), None), S::of(0));
            let r_twin = M::ans_encode_many(&mut twin, &order, EncForm::Loop, None);
            let mut c: AnsCoder<M::W, S, FaultyBackend<M::W>> = AnsCoder::from_raw_parts(FaultyBackend::new(Some(k), None), S::of(0));
            let r = M::ans_encode_many(&mut c, &items, form, None);
            if r != BatchOutcome::Backend || r_twin != BatchOutcome::Backend {
                fail!("C09/ans-wrong-error-on-failed-write", "batch form {form:?}: write #{k} of {tw} failed, batch returned {r:?}, per-symbol loop {r_twin:?}");
            }
            if c.bulk().v != twin.bulk().v || c.state() != twin.state() {
                fail!(
                    "C09/ans-batch-changed-by-failed-write",
                    "batch form {form:?} over {n2} symbols, write #{k} of {tw} fails: coder left with state {:#x} and {} words, the per-symbol loop with state {:#x} and {} words",
                    c.state().as_u(), c.bulk().v.len(), twin.state().as_u(), twin.bulk().v.len()
                );
            }
            run.count("write_faults_injected_in_batch", 1);
        }
    }
    let _ = words_u128(&reference);
    run.describe(|| desc);
}

pub fn case(run: &mut Run, rng: &mut Rng) {
    match rng.below(10) {
        0 | 1 => {
            let combos: &[fn(&mut Run, &mut Rng)] = &[uniform_case::<u8, 8>, uniform_case::<u8, 5>, uniform_case::<u16, 12>, uniform_case::<u16, 16>, uniform_case::<u32, 24>];
            let k = rng.below(combos.len() as u64) as usize;
            combos[k](run, rng)
        }
        2 | 3 => {
            let combos: &[fn(&mut Run, &mut Rng)] = &[categorical_case::<u8, 8>, categorical_case::<u16, 12>, categorical_case::<u16, 16>, categorical_case::<u32, 24>];
            let k = rng.below(combos.len() as u64) as usize;
            combos[k](run, rng)
        }
        4 | 5 => {
            let combos: &[fn(&mut Run, &mut Rng)] = &[
                quant_case::<i8, u8, 8>,
                quant_case::<u8, u8, 8>,
                quant_case::<i16, u16, 12>,
                quant_case::<i32, u16, 12>,
                quant_case::<i32, u32, 24>,
                quant_case::<u32, u32, 24>,
                quant_case::<i8, u32, 24>,
                quant_case::<u16, u16, 16>,
            ];
            let k = rng.below(combos.len() as u64) as usize;
            combos[k](run, rng)
        }
        6 => huffman_case(run, rng),
        _ => match rng.below(4) {
            0 => fault_case::<ModelU8, u16>(run, rng),
            1 => fault_case::<ModelU8, u32>(run, rng),
            2 => fault_case::<ModelU16, u32>(run, rng),
            _ => fault_case::<ModelU32, u64>(run, rng),
        },
    }
}
