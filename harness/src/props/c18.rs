//! C18 — size, emptiness and exhaustion queries report exactly what is there; model
//! diagnostics equal their textbook definitions (diagnostics part: see `diag` below).

use crate::num::Num;
use crate::prng::Rng;
use crate::props::c01::words_u128;
use crate::props::c02::describe_msg;
use crate::range_rows;
use crate::rangew::*;
use crate::report::Run;
use crate::table::*;
use constriction::stream::queue::{RangeDecoder, RangeEncoder};
use constriction::stream::stack::AnsCoder;
use constriction::stream::{Code, Decode};
use constriction::symbol::{QueueEncoder, ReadBitStream, StackCoder, WriteBitStream};
use constriction::UnwrapInfallible;
use num_traits::AsPrimitive;

fn ans_row<M: ModelSet, S: Num>(run: &mut Run, rng: &mut Rng)
where
    S: AsPrimitive<M::W> + From<M::W>,
{
    let w = <M::W as Num>::NBITS;
    let s = S::NBITS;
    run.h(1 << 60 | w as u64 * 1000 + s as u64);
    run.count(row_name(w, s), 1);
    run.count("ans_cases", 1);
    let n = rng.usize_in(0, if run.small { 25 } else if run.thorough() { 500 } else { 150 });
    let zk = rng.usize_in(1, 4);
    let zoo: Vec<M> = gen_zoo(rng, zk, if run.small { 8 } else { 40 });
    let from_binary = rng.chance(1, 3);
    let init: Vec<M::W> = if from_binary { crate::props::c04_gen_data(rng, 10) } else { Vec::new() };
    let mut coder: AnsCoder<M::W, S, Vec<M::W>> = if from_binary {
        let c = AnsCoder::from_binary(init.clone()).unwrap_infallible();
        if c.num_valid_bits() != init.len() * w as usize {
            run.violation("num_valid_bits", "C18/ans-num_valid_bits", format!("from_binary({:?}): num_valid_bits()={} expected {}", words_u128(&init), c.num_valid_bits(), init.len() * w as usize));
            return;
        }
        run.count("num_valid_bits_checks", 1);
        c
    } else {
        AnsCoder::new()
    };
    let mut stack: Vec<(usize, usize)> = Vec::new();
    let mut queries = 0u64;
    let mut queries_after_flush = 0u64;
    let mut queries_empty = 0u64;
    for step in 0..=n {
        let export = coder.clone().into_compressed().unwrap_infallible();
        let nw = coder.num_words();
        let nb = coder.num_bits();
        queries += 1;
        if export.is_empty() {
            queries_empty += 1;
        }
        if nw != export.len() || nb != export.len() * w as usize {
            run.violation("size-query", "C18/ans-num_words", format!("ANS W={w} S={s} init={:?} after {step} ops: num_words()={nw} num_bits()={nb}, but exporting now returns {} words {:?}", words_u128(&init), export.len(), words_u128(&export)));
            return;
        }
        if coder.is_empty() != export.is_empty() {
            run.violation("emptiness", "C18/ans-is_empty", format!("ANS W={w} S={s} after {step} ops: is_empty()={} but export is {:?}", coder.is_empty(), words_u128(&export)));
            return;
        }
        if Decode::<1>::maybe_exhausted(&coder) != export.is_empty() {
            run.violation("exhaustion", "C18/ans-maybe_exhausted", format!("ANS W={w} S={s}: maybe_exhausted()={} but export is {:?}", Decode::<1>::maybe_exhausted(&coder), words_u128(&export)));
            return;
        }
        if step == n {
            break;
        }
        if !stack.is_empty() && rng.chance(1, 3) {
            let (mi, sym) = stack.pop().unwrap();
            let g = zoo[mi].ans_decode(&mut coder).unwrap_infallible();
            if g != sym {
                run.violation("wrong-symbol", "C18/ans-roundtrip", format!("pop gave {g}, expected {sym}"));
                return;
            }
        } else {
            let mi = rng.below(zoo.len() as u64) as usize;
            let sym = pick_symbol(rng, zoo[mi].cdf());
            let bl = coder.bulk().len();
            zoo[mi].ans_encode(&mut coder, sym).expect("encode");
            if coder.bulk().len() > bl {
                queries_after_flush += 1;
            }
            stack.push((mi, sym));
            run.h(sym as u64 ^ (mi as u64) << 40);
        }
    }
    // decoder with whole words left must not claim exhaustion; after everything it must
    if !from_binary {
        while let Some((mi, sym)) = stack.pop() {
            if !coder.bulk().is_empty() && Decode::<1>::maybe_exhausted(&coder) {
                run.violation("exhaustion", "C18/ans-maybe_exhausted", format!("ANS W={w} S={s}: maybe_exhausted() with {} words left in bulk", coder.bulk().len()));
                return;
            }
            let g = zoo[mi].ans_decode(&mut coder).unwrap_infallible();
            if g != sym {
                run.violation("wrong-symbol", "C18/ans-roundtrip", format!("pop gave {g}, expected {sym}"));
                return;
            }
        }
        if !coder.is_empty() || !Decode::<1>::maybe_exhausted(&coder) {
            run.violation("exhaustion", "C18/ans-maybe_exhausted", format!("ANS W={w} S={s}: after popping every symbol is_empty()={} state={:#x}", coder.is_empty(), coder.state().as_u()));
            return;
        }
    }
    run.count("ans_queries", queries);
    run.count("ans_queries_right_after_flush", queries_after_flush);
    run.count("queries_on_empty_coder", queries_empty);
    if queries_after_flush > 0 || queries_empty > 0 {
        run.nontrivial();
    }
    run.describe(|| format!("ANS W={w} S={s} init={:?} n={n} queries={queries}", words_u128(&init)));
}

fn range_row<M: ModelSet, S: Num>(run: &mut Run, rng: &mut Rng)
where
    S: AsPrimitive<M::W> + From<M::W>,
{
    let w = <M::W as Num>::NBITS;
    let s = S::NBITS;
    run.h(2 << 60 | w as u64 * 1000 + s as u64);
    run.count(row_name(w, s), 1);
    run.count("range_cases", 1);
    let n = rng.usize_in(0, if run.small { 25 } else if run.thorough() { 500 } else { 150 });
    // 1/4 of the encoders start on a sink that already holds words: those count as content
    let prefix: Vec<M::W> = if rng.chance(1, 4) { crate::props::c01::gen_words(rng, 4, false) } else { Vec::new() };
    if !prefix.is_empty() {
        run.count("range_encoders_on_prefilled_sink", 1);
    }
    let mut enc: Enc<M, S> = if prefix.is_empty() { RangeEncoder::new() } else { RangeEncoder::with_backend(prefix.clone()) };
    let mut msg = Msg::<M> { zoo: Vec::new(), syms: Vec::new() };
    let mut edges = Edges::default();
    let cfg = DriveCfg { n, steer_16: if rng.bool() { 12 } else { 2 }, max_n_symbols: if run.small { 8 } else { 40 }, end_near_16: 3 };
    let mut queries = 0u64;
    let mut queries_inverted = 0u64;
    let ok = drive(run, rng, &mut enc, &mut msg, None, &mut edges, &cfg, |run, _rng, e, msg, i| {
        let export = e.clone().into_compressed().unwrap_infallible();
        let nw = e.num_words();
        let nb = e.num_bits();
        let inv = num_inverted::<M, S>(e);
        queries += 1;
        if inv > 0 {
            queries_inverted += 1;
        }
        if nw != export.len() || nb != export.len() * w as usize {
            run.violation(
                "size-query",
                "C18/range-num_words",
                format!("RANGE W={w} S={s} before symbol {i} (held back {inv}): num_words()={nw} num_bits()={nb} but exporting now returns {} words; {}", export.len(), describe_msg(msg)),
            );
            return false;
        }
        if e.is_empty() != export.is_empty() {
            run.violation("emptiness", "C18/range-is_empty", format!("RANGE W={w} S={s} before symbol {i}: is_empty()={} but export has {} words", e.is_empty(), export.len()));
            return false;
        }
        true
    });
    if !ok {
        return;
    }
    edges.publish(run);
    // decoder exhaustion
    let words = enc.into_compressed().unwrap_infallible();
    let mut dec = RangeDecoder::<M::W, S, _>::with_backend(constriction::backends::Cursor::new_at_pos(&words[..], prefix.len()).unwrap()).unwrap_infallible();
    for (i, &(mi, sym)) in msg.syms.iter().enumerate() {
        let (cursor, _, _) = dec.clone().into_raw_parts();
        let (_, pos) = cursor.into_buf_and_pos();
        if pos < words.len() && dec.maybe_exhausted() {
            run.violation("exhaustion", "C18/range-maybe_exhausted", format!("RANGE W={w} S={s}: decoder claims maybe_exhausted() before symbol {i} with {} whole words unread", words.len() - pos));
            return;
        }
        if pos < words.len() {
            run.count("not_exhausted_checks", 1);
        }
        match msg.zoo[mi].range_decode(&mut dec) {
            Ok(g) if g == sym => {}
            other => {
                run.violation("wrong-symbol", "C18/range-roundtrip", format!("symbol #{i}: {other:?} vs {sym}"));
                return;
            }
        }
    }
    if !dec.maybe_exhausted() {
        run.violation("exhaustion", "C18/range-maybe_exhausted", format!("RANGE W={w} S={s}: decoder not maybe_exhausted() after exactly the encoded symbols; {} words {:?}", describe_msg(&msg), words_u128(&words)));
        return;
    }
    run.count("range_queries", queries);
    run.count("range_queries_while_inverted", queries_inverted);
    if queries_inverted > 0 || n == 0 {
        run.nontrivial();
    }
    if n == 0 {
        run.count("queries_on_empty_coder", 1);
    }
    run.describe(|| format!("RANGE W={w} S={s} {} queries={queries} ({queries_inverted} while inverted)", describe_msg(&msg)));
}

fn bits_row<W: Num>(run: &mut Run, rng: &mut Rng) {
    let w = W::NBITS as usize;
    run.h(3 << 60 | w as u64);
    run.count("bit_cases", 1);
    let n = rng.usize_in(0, if run.small { 40 } else { 3 * w + 20 });
    let mut bits: Vec<bool> = Vec::new();
    let mut st = StackCoder::<W>::new();
    let mut qu = QueueEncoder::<W>::new();
    let mut qbits = 0usize;
    for step in 0..=n {
        if st.len() != bits.len() || st.is_empty() != bits.is_empty() {
            run.violation("size-query", "C18/bits-len", format!("StackCoder<{}> len()={} is_empty()={} with {} bits on it", W::NAME, st.len(), st.is_empty(), bits.len()));
            return;
        }
        if qu.len() != qbits || qu.is_empty() != (qbits == 0) {
            run.violation("size-query", "C18/bits-len", format!("QueueEncoder<{}> len()={} is_empty()={} with {} bits in it", W::NAME, qu.len(), qu.is_empty(), qbits));
            return;
        }
        if bits.len() % w == 0 {
            run.count("bit_queries_at_word_boundary", 1);
            run.nontrivial();
        }
        // exporting (borrowing views) at this moment: lengths agree with the queries, and the
        // queries still agree with the content afterwards (checked at the top of the next round)
        if rng.chance(1, 3) {
            let gl = st.get_compressed().len();
            if gl != (bits.len() + 1).div_ceil(w) {
                run.violation("size-query", "C18/bits-len", format!("StackCoder<{}> with {} bits exports {gl} words (one sealing bit is added)", W::NAME, bits.len()));
                return;
            }
            let ql = qu.get_compressed().len();
            if ql != qbits.div_ceil(w) {
                run.violation("size-query", "C18/bits-len", format!("QueueEncoder<{}> with {qbits} bits exports {ql} words", W::NAME));
                return;
            }
            run.count("bit_exports_between_queries", 1);
            if st.len() != bits.len() || st.is_empty() != bits.is_empty() || qu.len() != qbits {
                run.violation("size-query", "C18/bits-len", format!("StackCoder/QueueEncoder<{}>: after an export view was dropped len() = {} / {} with {} / {qbits} bits", W::NAME, st.len(), qu.len(), bits.len()));
                return;
            }
        }
        if step == n {
            break;
        }
        let b = rng.bool();
        if !bits.is_empty() && rng.chance(1, 4) {
            let g = st.read_bit().unwrap_infallible();
            if g != bits.pop() {
                run.violation("wrong-bit", "C18/bits-roundtrip", "stack read_bit mismatch".into());
                return;
            }
        } else {
            st.write_bit(b).unwrap_infallible();
            bits.push(b);
        }
        qu.write_bit(b).unwrap_infallible();
        qbits += 1;
        run.h(b as u64 + 2);
    }
    // decoder exhaustion for the queue: not exhausted while whole words are left, possibly
    // exhausted after exactly the written bits
    {
        let mut qd = qu.into_decoder().unwrap_infallible();
        let mut read = 0usize;
        while read < qbits {
            let whole_words_left = (qbits.div_ceil(w) * w - read) / w > 0 && read % w == 0 && qbits - read >= w;
            if whole_words_left && qd.maybe_exhausted() {
                run.violation("exhaustion", "C18/bits-maybe_exhausted", format!("QueueDecoder<{}> claims maybe_exhausted() after {read} of {qbits} bits with whole words unread", W::NAME));
                return;
            }
            if qd.read_bit().unwrap_infallible().is_none() {
                run.violation("wrong-bit", "C18/bits-roundtrip", format!("QueueDecoder<{}> ran dry after {read} of {qbits} bits", W::NAME));
                return;
            }
            read += 1;
        }
        if !qd.maybe_exhausted() {
            run.violation("exhaustion", "C18/bits-maybe_exhausted", format!("QueueDecoder<{}> not maybe_exhausted() after reading exactly the {qbits} bits that were written", W::NAME));
            return;
        }
        run.count("bit_decoder_exhaustion_checks", 1);
    }
    run.count("bit_queries", 2 * (n as u64 + 1));
    run.describe(|| format!("BITS W={} n={n}", W::NAME));
}

pub fn case(run: &mut Run, rng: &mut Rng) {
    match rng.below(8) {
        0 | 1 => range_rows!(run, rng, ans_row),
        2 | 3 => range_rows!(run, rng, range_row),
        4 => match rng.below(5) {
            0 => bits_row::<u8>(run, rng),
            1 => bits_row::<u16>(run, rng),
            2 => bits_row::<u32>(run, rng),
            3 => bits_row::<u64>(run, rng),
            _ => bits_row::<usize>(run, rng),
        },
        _ => crate::props::diag::case(run, rng),
    }
}
