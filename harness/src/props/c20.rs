//! C20 (accessor-abuse part) — no sequence of safe API calls causes undefined behaviour.
//!
//! The oracle is the instrumented build itself (std unsafe-precondition + overflow checks in
//! `dbg`, Miri, AddressSanitizer) plus the driver's abort classifier; this module only drives
//! the safe API in the ways the normal explorers do not: buffers manipulated through the
//! accessors the API hands out, coders assembled from forged raw parts, forged seek positions.
//! Clean errors and ordinary panics are fine; aborts / UB reports / overflow panics are not.

use crate::num::{mask, Num};
use crate::prng::Rng;
use crate::report::Run;
use crate::table::*;
use constriction::backends::*;
use constriction::stream::queue::{EncoderSituation, RangeCoderState, RangeDecoder, RangeEncoder};
use constriction::stream::stack::AnsCoder;
use constriction::{Queue, Seek, Stack};
use num_traits::AsPrimitive;
use std::num::NonZeroUsize;

fn cursor_abuse<W: Num>(run: &mut Run, rng: &mut Rng) {
    run.count("cursor_abuse_cases", 1);
    run.h(1 << 60 | W::NBITS as u64);
    let len = rng.usize_in(0, 12);
    let init: Vec<W> = (0..len).map(|_| W::of(rng.edgy(W::NBITS))).collect();
    let pos = rng.usize_in(0, len);
    let mut cur: Cursor<W, Vec<W>> = Cursor::new_at_pos(init, pos).unwrap();
    let mut rev: Option<Reverse<Cursor<W, Vec<W>>>> = None;
    // only rarely shrink the buffer: every such case is expected to end the process in the
    // UB-detecting builds (known finding K2), which costs a process restart
    let allow_shrink = rng.chance(1, 150) && run.index < 3000;
    let mut log: Vec<String> = Vec::new();
    let mut shrunk = false;
    let n = rng.usize_in(2, 16);
    for _ in 0..n {
        let op = rng.below(10);
        run.h(op);
        let c: &mut Cursor<W, Vec<W>> = match &mut rev {
            Some(r) => &mut r.0,
            None => &mut cur,
        };
        match op {
            0 => {
                let k = rng.usize_in(0, 4);
                for _ in 0..k {
                    c.buf_mut().push(W::of(rng.edgy(W::NBITS)));
                }
                log.push(format!("buf_mut().push x{k}"));
            }
            1 if allow_shrink => {
                let l = c.buf().len();
                let newl = rng.usize_in(0, l);
                c.buf_mut().truncate(newl);
                if rng.bool() {
                    c.buf_mut().shrink_to_fit();
                }
                shrunk |= newl < l;
                log.push(format!("buf_mut().truncate({newl})"));
            }
            2 if allow_shrink => {
                *c.buf_mut() = (0..rng.usize_in(0, 3)).map(|_| W::of(7)).collect();
                shrunk = true;
                log.push("buf_mut() replaced by a shorter Vec".into());
            }
            3 => {
                let l = c.buf().len();
                if l > 0 {
                    let i = rng.below(l as u64) as usize;
                    c.buf_mut()[i] = W::of(mask(W::NBITS));
                }
                log.push("buf_mut()[i] = MAX".into());
            }
            _ => {}
        }
        let tag = if shrunk { " {{sig:cursor-buf-shrunk}}" } else { "" };
        run.note(|| format!("Cursor<{}> abuse {:?}{tag}", W::NAME, log));
        // now use the cursor through the safe traits
        match op {
            4 | 1 | 2 => {
                let r = match &mut rev {
                    Some(r) => ReadWords::<W, Stack>::read(r),
                    None => ReadWords::<W, Stack>::read(&mut cur),
                };
                let _ = r;
                log.push("read_stack".into());
            }
            5 => {
                let r = match &mut rev {
                    Some(r) => ReadWords::<W, Queue>::read(r),
                    None => ReadWords::<W, Queue>::read(&mut cur),
                };
                let _ = r;
                log.push("read_queue".into());
            }
            6 | 0 | 3 => {
                let x = W::of(rng.edgy(W::NBITS));
                let r = match &mut rev {
                    Some(r) => r.write(x),
                    None => cur.write(x),
                };
                let _ = r;
                log.push("write".into());
            }
            7 => {
                let (a, b) = match &rev {
                    Some(r) => (BoundedReadWords::<W, Stack>::remaining(r), r.space_left()),
                    None => (BoundedReadWords::<W, Queue>::remaining(&cur), cur.space_left()),
                };
                let _ = (a, b);
                log.push("bounds".into());
            }
            8 => {
                match rev.take() {
                    Some(r) => cur = r.into_reversed(),
                    None => {
                        let c = std::mem::replace(&mut cur, Cursor::new_at_write_beginning(Vec::new()));
                        rev = Some(c.into_reversed());
                    }
                }
                log.push("into_reversed".into());
            }
            _ => {
                let target = rng.usize_in(0, 20);
                let _ = match &mut rev {
                    Some(r) => r.seek(target),
                    None => cur.seek(target),
                };
                // round trip through into_buf_and_pos -> new_at_pos (must validate)
                if rev.is_none() {
                    let c = std::mem::replace(&mut cur, Cursor::new_at_write_beginning(Vec::new()));
                    let (buf, pos) = c.into_buf_and_pos();
                    let forged = if rng.chance(1, 4) { pos + rng.usize_in(1, 5) } else { pos };
                    cur = match Cursor::new_at_pos(buf.clone(), forged) {
                        Ok(c) => c,
                        Err(()) => Cursor::new_at_pos(buf, 0).unwrap(),
                    };
                    let v = cur.as_mut_view();
                    drop(v);
                }
                log.push(format!("seek({target}) / rebuild"));
            }
        }
    }
    if shrunk {
        run.count("cursor_buffers_shrunk_through_buf_mut", 1);
    }
    run.nontrivial();
    run.describe(|| format!("Cursor<{}> abuse {:?}", W::NAME, log));
}

fn forged_coders<M: ModelSet, S: Num>(run: &mut Run, rng: &mut Rng)
where
    S: AsPrimitive<M::W> + From<M::W>,
{
    run.count("forged_coder_cases", 1);
    let (w, s) = (<M::W as Num>::NBITS, S::NBITS);
    run.h(2 << 60 | w as u64 * 1000 + s as u64);
    let zoo: Vec<M> = gen_zoo(rng, 3, 24);
    let bulk: Vec<M::W> = (0..rng.usize_in(0, 6)).map(|_| <M::W as Num>::of(rng.edgy(w))).collect();
    let state = S::of(rng.edgy(s));
    run.h128(state.as_u());
    run.note(|| format!("forged coders W={w} S={s} bulk {:?} state {:#x}", bulk.iter().map(|x| x.as_u()).collect::<Vec<_>>(), state.as_u()));
    // ANS with an arbitrary state (also states that violate the documented invariant)
    {
        let mut c: AnsCoder<M::W, S, Vec<M::W>> = AnsCoder::from_raw_parts(bulk.clone(), state);
        for _ in 0..rng.usize_in(1, 30) {
            let m = &zoo[rng.below(zoo.len() as u64) as usize];
            if rng.bool() {
                let _ = m.ans_encode(&mut c, pick_symbol(rng, m.cdf()));
            } else {
                let g = m.ans_decode(&mut c);
                if let Ok(g) = g {
                    if g >= m.n() {
                        run.violation("symbol-outside-model", "C20/forged-ans-symbol-outside-support", format!("forged AnsCoder returned symbol {g} of {}", m.n()));
                        return;
                    }
                }
            }
            let _ = c.num_valid_bits();
            let _ = c.num_words();
            let _ = c.get_binary().map(|g| g.len());
            let _ = c.get_compressed().map(|g| g.len());
        }
        let _ = c.clone().into_binary();
        // forged seek on a seekable decoder
        let mut d = c.as_seekable_decoder();
        let _ = d.seek((rng.usize_in(0, 12), S::of(rng.edgy(s))));
        let m = &zoo[0];
        let _ = m.ans_decode(&mut d);
    }
    // range encoder with forged state and situation
    {
        let lower = S::of(rng.edgy(s));
        let range = S::of(rng.edgy(s));
        if let Ok(st) = RangeCoderState::<M::W, S>::new(lower, range) {
            let situation = match rng.below(3) {
                0 => EncoderSituation::Normal,
                _ => EncoderSituation::Inverted(NonZeroUsize::new(rng.usize_in(1, 5)).unwrap(), <M::W as Num>::of(rng.edgy(w))),
            };
            let mut e: RangeEncoder<M::W, S, Vec<M::W>> = RangeEncoder::from_raw_parts(bulk.clone(), st, situation);
            for _ in 0..rng.usize_in(1, 30) {
                let m = &zoo[rng.below(zoo.len() as u64) as usize];
                let _ = m.range_encode(&mut e, pick_symbol(rng, m.cdf()));
                let _ = e.num_words();
                if rng.chance(1, 4) {
                    let g = e.get_compressed();
                    let _ = g.len();
                }
            }
            let _ = e.into_compressed();
        }
        // range decoder with forged parts (validated by from_raw_parts) and forged seeks
        let point = S::of(rng.edgy(s));
        if let Ok(st) = RangeCoderState::<M::W, S>::new(S::of(rng.edgy(s)), S::of(rng.edgy(s))) {
            let cur = Cursor::new_at_pos(bulk.clone(), rng.usize_in(0, bulk.len())).unwrap();
            if let Ok(mut d) = RangeDecoder::<M::W, S, _>::from_raw_parts(cur, st, point) {
                for _ in 0..rng.usize_in(1, 30) {
                    let m = &zoo[rng.below(zoo.len() as u64) as usize];
                    match m.range_decode(&mut d) {
                        Ok(g) if g >= m.n() => {
                            run.violation("symbol-outside-model", "C20/forged-range-symbol-outside-support", format!("forged RangeDecoder returned symbol {g} of {}", m.n()));
                            return;
                        }
                        _ => {}
                    }
                    if rng.chance(1, 5) {
                        if let Ok(st2) = RangeCoderState::<M::W, S>::new(S::of(rng.edgy(s)), S::of(rng.edgy(s))) {
                            let _ = d.seek((rng.usize_in(0, 10), st2));
                        }
                    }
                    let _ = d.maybe_exhausted();
                }
            }
        }
    }
    run.nontrivial();
    run.describe(|| format!("forged coders W={w} S={s} state {:#x}", state.as_u()));
}

// --------------------------------------------------------------------------------------------
// models built from hostile float tables, then used in every way the safe API allows

use crate::props::c03::{table_desc, FloatT};
use constriction::stream::model::*;
use constriction::stream::{Decode, Encode};

/// Entries on and around the fixed-point grid (so that roundings land on 0, 1, 2 units), with
/// hostile values (NaN, infinities, negatives, -0, subnormals) mixed in.
fn gen_hostile_table<F: FloatT>(rng: &mut Rng, p: u32, max_len: usize) -> (Vec<F>, Option<F>) {
    let len = rng.usize_in(1, max_len);
    let norm64 = match rng.below(4) {
        0 => 1.0,
        1 => 0.25 + 8.0 * rng.f64(),
        _ => 1.0,
    };
    let unit = norm64 / (p as f64).exp2();
    let mut v: Vec<f64> = (0..len)
        .map(|_| match rng.below(6) {
            0 | 1 => (rng.below(4) as f64 + *rng.pick(&[0.0, 0.25, 0.5, 0.75, 0.999])) * unit,
            2 => 0.0,
            3 => norm64 * rng.f64() / len as f64,
            _ => norm64 * rng.f64(),
        })
        .collect();
    let hostile = rng.usize_in(0, 2);
    for _ in 0..hostile {
        let k = rng.below(len as u64) as usize;
        v[k] = match rng.below(8) {
            0 | 1 | 2 => f64::NAN,
            3 => f64::INFINITY,
            4 => f64::NEG_INFINITY,
            5 => -v[k],
            6 => -0.0,
            _ => 5e-324,
        };
    }
    let norm = match rng.below(6) {
        0 => None,
        1 => Some(v.iter().copied().filter(|x| x.is_finite()).sum::<f64>()),
        2 => Some(*rng.pick(&[0.0, -1.0, f64::NAN, f64::INFINITY, 1e-300, 1e300])),
        _ => Some(norm64),
    };
    (v.into_iter().map(F::from64).collect(), norm.map(F::from64))
}

fn use_decoder_model<M, const P: usize>(rng: &mut Rng, m: &M) -> u64
where
    M: DecoderModel<P>,
    M::Probability: Num + Into<u32>,
    u32: AsPrimitive<M::Probability>,
{
    let pb = <M::Probability as Num>::NBITS;
    let mut calls = 0;
    for _ in 0..48 {
        // in-range and (where the type allows) out-of-range quantiles
        let q = match rng.below(4) {
            0 => rng.edgy(P as u32) & mask(P as u32),
            1 => rng.edgy(pb) & mask(pb),
            _ => rng.below128(1u128 << P),
        };
        if q >> P != 0 && (P as u32) < pb {
            // documented precondition `quantile < 1 << PRECISION`; a panic is fine here, UB is not
            let r = std::panic::catch_unwind(std::panic::AssertUnwindSafe(|| {
                let _ = m.quantile_function(<M::Probability as Num>::of(q));
            }));
            if r.is_err() && crate::is_ub_check_panic(&crate::last_panic()) {
                std::panic::resume_unwind(Box::new(crate::last_panic()));
            }
        } else {
            let _ = m.quantile_function(<M::Probability as Num>::of(q));
        }
        calls += 1;
    }
    // decode a few symbols from arbitrary words
    let words: Vec<u32> = (0..6).map(|_| rng.u64() as u32).collect();
    if let Ok(mut ans) = AnsCoder::<u32, u64>::from_binary(words) {
        for _ in 0..8 {
            let _ = ans.decode_symbol(m);
            calls += 1;
        }
    }
    calls
}

fn use_encoder_model<M, const P: usize>(m: &M, symbols: impl Iterator<Item = M::Symbol>) -> u64
where
    M: EncoderModel<P>,
    M::Probability: Num + Into<u32>,
    M::Symbol: Clone,
    u32: AsPrimitive<M::Probability>,
{
    let mut calls = 0;
    let mut ans = AnsCoder::<u32, u64>::new();
    for s in symbols {
        let _ = m.left_cumulative_and_probability(s.clone());
        let _ = ans.encode_symbol(s, m);
        calls += 2;
    }
    calls
}

/// Lookup models exist only for probability types that convert losslessly to usize (u8, u16).
trait MaybeLookup: Sized {
    fn lookup<F: FloatT + AsPrimitive<Self>, const P: usize>(rng: &mut Rng, v: &[F], norm: Option<F>, labels: &[i32]) -> (bool, u64)
    where
        usize: AsPrimitive<Self> + AsPrimitive<F>,
        Self: AsPrimitive<F>;
}
impl MaybeLookup for u32 {
    fn lookup<F: FloatT + AsPrimitive<Self>, const P: usize>(_: &mut Rng, _: &[F], _: Option<F>, _: &[i32]) -> (bool, u64)
    where
        usize: AsPrimitive<Self> + AsPrimitive<F>,
        Self: AsPrimitive<F>,
    {
        (false, 0)
    }
}
macro_rules! impl_lookup {
    ($t:ty) => {
        impl MaybeLookup for $t {
            fn lookup<F: FloatT + AsPrimitive<Self>, const P: usize>(rng: &mut Rng, v: &[F], norm: Option<F>, labels: &[i32]) -> (bool, u64)
            where
                usize: AsPrimitive<Self> + AsPrimitive<F>,
                Self: AsPrimitive<F>,
            {
                let mut used = 0;
                let mut acc = false;
                if rng.bool() {
                    if let Ok(m) = ContiguousLookupDecoderModel::<$t, Vec<$t>, Box<[$t]>, P>::from_floating_point_probabilities_fast(v, norm) {
                        acc = true;
                        used += use_decoder_model::<_, P>(rng, &m);
                    }
                    if let Ok(m) = ContiguousCategoricalEntropyModel::<$t, Vec<$t>, P>::from_floating_point_probabilities_fast(v, norm) {
                        let l = m.to_lookup_decoder_model();
                        used += use_decoder_model::<_, P>(rng, &l);
                    }
                } else if let Ok(m) = NonContiguousLookupDecoderModel::<i32, $t, Vec<($t, i32)>, Box<[$t]>, P>::from_symbols_and_floating_point_probabilities_fast(labels.iter().copied(), v, norm) {
                    acc = true;
                    used += use_decoder_model::<_, P>(rng, &m);
                }
                (acc, used)
            }
        }
    };
}
impl_lookup!(u8);
impl_lookup!(u16);

fn hostile_lookup<F, Pr, const P: usize>(run: &mut Run, rng: &mut Rng, v: &[F], norm: Option<F>, labels: &[i32], desc: &str)
where
    F: FloatT + AsPrimitive<Pr>,
    Pr: Num + MaybeLookup + AsPrimitive<F>,
    usize: AsPrimitive<Pr> + AsPrimitive<F>,
{
    let (accepted, used) = Pr::lookup::<F, P>(rng, v, norm, labels);
    run.count(if accepted { "hostile_tables_accepted" } else { "hostile_tables_rejected" }, 1);
    run.count("calls_on_models_from_hostile_tables", used);
    if accepted {
        run.nontrivial();
    }
    run.describe(|| desc.to_string());
}

fn hostile_models<F, Pr, const P: usize>(run: &mut Run, rng: &mut Rng)
where
    F: FloatT + AsPrimitive<Pr>,
    Pr: Num + AsPrimitive<usize> + AsPrimitive<F> + Into<u32> + Into<f64> + MaybeLookup,
    usize: AsPrimitive<Pr> + AsPrimitive<F>,
    u32: AsPrimitive<Pr>,
    f64: AsPrimitive<Pr>,
{
    run.count("hostile_model_cases", 1);
    let max_len = if run.small { 6 } else { ((1usize << P.min(6)) + 2).min(24) };
    let (v, norm) = gen_hostile_table::<F>(rng, P as u32, max_len);
    for x in &v {
        let y: f64 = (*x).into();
        run.h(y.to_bits());
    }
    let n = v.len();
    let which = rng.below(9);
    run.h(4 << 60 | (P as u64) << 8 | which);
    let desc = format!("hostile table <{},{},{}> ctor {which}: {} normalization {:?}", Pr::NAME, F::FNAME, P, table_desc(&v), norm);
    run.note(|| desc.clone());
    let labels: Vec<i32> = (0..n as i32).map(|i| i * 3 - 7).collect();
    let syms = || (0..n + 2).chain([usize::MAX, usize::MAX / 2 + 1]);
    let lsyms = || labels.clone().into_iter().chain([i32::MIN, i32::MAX, 1]);
    let mut used = 0u64;
    let accepted = match which {
        0 => ContiguousCategoricalEntropyModel::<Pr, Vec<Pr>, P>::from_floating_point_probabilities_fast(&v, norm)
            .map(|m| {
                used += use_encoder_model::<_, P>(&m, syms());
                used += use_decoder_model::<_, P>(rng, &m);
                let _ = m.symbol_table().count();
                let _ = m.entropy_base2::<f64>();
            })
            .is_ok(),
        1 => LazyContiguousCategoricalEntropyModel::<Pr, F, &[F], P>::from_floating_point_probabilities_fast(&v[..], norm)
            .map(|m| {
                used += use_encoder_model::<_, P>(&m, syms());
                used += use_decoder_model::<_, P>(rng, &m);
            })
            .is_ok(),
        2 => return hostile_lookup::<F, Pr, P>(run, rng, &v, norm, &labels, &desc),
        3 => NonContiguousCategoricalDecoderModel::<i32, Pr, Vec<(Pr, i32)>, P>::from_symbols_and_floating_point_probabilities_fast(labels.iter().copied(), &v, norm)
            .map(|m| {
                used += use_decoder_model::<_, P>(rng, &m);
                let _ = m.symbol_table().count();
            })
            .is_ok(),
        4 => return hostile_lookup::<F, Pr, P>(run, rng, &v, norm, &labels, &desc),
        5 => NonContiguousCategoricalEncoderModel::<i32, Pr, P>::from_symbols_and_floating_point_probabilities_fast(labels.iter().copied(), &v, norm)
            .map(|m| used += use_encoder_model::<_, P>(&m, lsyms()))
            .is_ok(),
        6 => ContiguousCategoricalEntropyModel::<Pr, Vec<Pr>, P>::from_floating_point_probabilities_perfect(&v)
            .map(|m| {
                used += use_encoder_model::<_, P>(&m, syms());
                used += use_decoder_model::<_, P>(rng, &m);
            })
            .is_ok(),
        7 => NonContiguousCategoricalDecoderModel::<i32, Pr, Vec<(Pr, i32)>, P>::from_symbols_and_floating_point_probabilities_perfect(labels.iter().copied(), &v)
            .map(|m| used += use_decoder_model::<_, P>(rng, &m))
            .is_ok(),
        _ => NonContiguousCategoricalEncoderModel::<i32, Pr, P>::from_symbols_and_floating_point_probabilities_perfect(labels.iter().copied(), &v)
            .map(|m| used += use_encoder_model::<_, P>(&m, lsyms()))
            .is_ok(),
    };
    run.count(if accepted { "hostile_tables_accepted" } else { "hostile_tables_rejected" }, 1);
    run.count("calls_on_models_from_hostile_tables", used);
    if accepted {
        run.nontrivial();
    }
    run.describe(|| desc);
}

pub fn case(run: &mut Run, rng: &mut Rng) {
    if rng.chance(1, 3) {
        let combos: &[fn(&mut Run, &mut Rng)] = &[
            hostile_models::<f64, u32, 24>,
            hostile_models::<f32, u32, 24>,
            hostile_models::<f64, u16, 12>,
            hostile_models::<f32, u16, 16>,
            hostile_models::<f64, u8, 8>,
            hostile_models::<f64, u8, 3>,
            hostile_models::<f64, u32, 32>,
        ];
        let k = rng.below(combos.len() as u64) as usize;
        return combos[k](run, rng);
    }
    if rng.bool() {
        match rng.below(4) {
            0 => cursor_abuse::<u8>(run, rng),
            1 => cursor_abuse::<u16>(run, rng),
            2 => cursor_abuse::<u32>(run, rng),
            _ => cursor_abuse::<u64>(run, rng),
        }
    } else {
        match rng.below(5) {
            0 => forged_coders::<ModelU8, u16>(run, rng),
            1 => forged_coders::<ModelU8, u32>(run, rng),
            2 => forged_coders::<ModelU16, u32>(run, rng),
            3 => forged_coders::<ModelU32, u64>(run, rng),
            _ => forged_coders::<ModelU64, u128>(run, rng),
        }
    }
}
