//! C20 (accessor-abuse part) — no sequence of safe API calls causes undefined behaviour.
//!
//! The oracle is the instrumented build itself (std unsafe-precondition + overflow checks in
//! `dbg`, Miri, AddressSanitizer) plus the driver's abort classifier; this module only drives
//! the safe API in the ways the normal explorers do not: buffers manipulated through the
//! accessors the API hands out, coders assembled from forged raw parts, forged seek positions.
//! Clean errors and ordinary panics are fine; aborts / UB reports / overflow panics are not.

use crate::num::{mask, Num};
use crate::prng::Rng;
use crate::report::Run;
use crate::table::*;
use constriction::backends::*;
use constriction::stream::queue::{EncoderSituation, RangeCoderState, RangeDecoder, RangeEncoder};
use constriction::stream::stack::AnsCoder;
use constriction::{Queue, Seek, Stack};
use num_traits::AsPrimitive;
use std::num::NonZeroUsize;

fn cursor_abuse<W: Num>(run: &mut Run, rng: &mut Rng) {
    run.count("cursor_abuse_cases", 1);
    run.h(1 << 60 | W::NBITS as u64);
    let len = rng.usize_in(0, 12);
    let init: Vec<W> = (0..len).map(|_| W::of(rng.edgy(W::NBITS))).collect();
    let pos = rng.usize_in(0, len);
    let mut cur: Cursor<W, Vec<W>> = Cursor::new_at_pos(init, pos).unwrap();
    let mut rev: Option<Reverse<Cursor<W, Vec<W>>>> = None;
    // only rarely shrink the buffer: every such case is expected to end the process in the
    // UB-detecting builds (known finding K2), which costs a process restart
    let allow_shrink = rng.chance(1, 150) && run.index < 3000;
    let mut log: Vec<String> = Vec::new();
    let mut shrunk = false;
    let n = rng.usize_in(2, 16);
    for _ in 0..n {
        let op = rng.below(10);
        run.h(op);
        let c: &mut Cursor<W, Vec<W>> = match &mut rev {
            Some(r) => &mut r.0,
            None => &mut cur,
        };
        match op {
            0 => {
                let k = rng.usize_in(0, 4);
                for _ in 0..k {
                    c.buf_mut().push(W::of(rng.edgy(W::NBITS)));
                }
                log.push(format!("buf_mut().push x{k}"));
            }
            1 if allow_shrink => {
                let l = c.buf().len();
                let newl = rng.usize_in(0, l);
                c.buf_mut().truncate(newl);
                if rng.bool() {
                    c.buf_mut().shrink_to_fit();
                }
                shrunk |= newl < l;
                log.push(format!("buf_mut().truncate({newl})"));
            }
            2 if allow_shrink => {
                *c.buf_mut() = (0..rng.usize_in(0, 3)).map(|_| W::of(7)).collect();
                shrunk = true;
                log.push("buf_mut() replaced by a shorter Vec".into());
            }
            3 => {
                let l = c.buf().len();
                if l > 0 {
                    let i = rng.below(l as u64) as usize;
                    c.buf_mut()[i] = W::of(mask(W::NBITS));
                }
                log.push("buf_mut()[i] = MAX".into());
            }
            _ => {}
        }
        let tag = if shrunk { " {{sig:cursor-buf-shrunk}}" } else { "" };
        run.note(|| format!("Cursor<{}> abuse {:?}{tag}", W::NAME, log));
        // now use the cursor through the safe traits
        match op {
            4 | 1 | 2 => {
                let r = match &mut rev {
                    Some(r) => ReadWords::<W, Stack>::read(r),
                    None => ReadWords::<W, Stack>::read(&mut cur),
                };
                let _ = r;
                log.push("read_stack".into());
            }
            5 => {
                let r = match &mut rev {
                    Some(r) => ReadWords::<W, Queue>::read(r),
                    None => ReadWords::<W, Queue>::read(&mut cur),
                };
                let _ = r;
                log.push("read_queue".into());
            }
            6 | 0 | 3 => {
                let x = W::of(rng.edgy(W::NBITS));
                let r = match &mut rev {
                    Some(r) => r.write(x),
                    None => cur.write(x),
                };
                let _ = r;
                log.push("write".into());
            }
            7 => {
                let (a, b) = match &rev {
                    Some(r) => (BoundedReadWords::<W, Stack>::remaining(r), r.space_left()),
                    None => (BoundedReadWords::<W, Queue>::remaining(&cur), cur.space_left()),
                };
                let _ = (a, b);
                log.push("bounds".into());
            }
            8 => {
                match rev.take() {
                    Some(r) => cur = r.into_reversed(),
                    None => {
                        let c = std::mem::replace(&mut cur, Cursor::new_at_write_beginning(Vec::new()));
                        rev = Some(c.into_reversed());
                    }
                }
                log.push("into_reversed".into());
            }
            _ => {
                let target = rng.usize_in(0, 20);
                let _ = match &mut rev {
                    Some(r) => r.seek(target),
                    None => cur.seek(target),
                };
                // round trip through into_buf_and_pos -> new_at_pos (must validate)
                if rev.is_none() {
                    let c = std::mem::replace(&mut cur, Cursor::new_at_write_beginning(Vec::new()));
                    let (buf, pos) = c.into_buf_and_pos();
                    let forged = if rng.chance(1, 4) { pos + rng.usize_in(1, 5) } else { pos };
                    cur = match Cursor::new_at_pos(buf.clone(), forged) {
                        Ok(c) => c,
                        Err(()) => Cursor::new_at_pos(buf, 0).unwrap(),
                    };
                    let v = cur.as_mut_view();
                    drop(v);
                }
                log.push(format!("seek({target}) / rebuild"));
            }
        }
    }
    if shrunk {
        run.count("cursor_buffers_shrunk_through_buf_mut", 1);
    }
    run.nontrivial();
    run.describe(|| format!("Cursor<{}> abuse {:?}", W::NAME, log));
}

fn forged_coders<M: ModelSet, S: Num>(run: &mut Run, rng: &mut Rng)
where
    S: AsPrimitive<M::W> + From<M::W>,
{
    run.count("forged_coder_cases", 1);
    let (w, s) = (<M::W as Num>::NBITS, S::NBITS);
    run.h(2 << 60 | w as u64 * 1000 + s as u64);
    let zoo: Vec<M> = gen_zoo(rng, 3, 24);
    let bulk: Vec<M::W> = (0..rng.usize_in(0, 6)).map(|_| <M::W as Num>::of(rng.edgy(w))).collect();
    let state = S::of(rng.edgy(s));
    run.h128(state.as_u());
    run.note(|| format!("forged coders W={w} S={s} bulk {:?} state {:#x}", bulk.iter().map(|x| x.as_u()).collect::<Vec<_>>(), state.as_u()));
    // ANS with an arbitrary state (also states that violate the documented invariant)
    {
        let mut c: AnsCoder<M::W, S, Vec<M::W>> = AnsCoder::from_raw_parts(bulk.clone(), state);
        for _ in 0..rng.usize_in(1, 30) {
            let m = &zoo[rng.below(zoo.len() as u64) as usize];
            if rng.bool() {
                let _ = m.ans_encode(&mut c, pick_symbol(rng, m.cdf()));
            } else {
                let g = m.ans_decode(&mut c);
                if let Ok(g) = g {
                    if g >= m.n() {
                        run.violation("symbol-outside-model", "C20/forged-ans-symbol-outside-support", format!("forged AnsCoder returned symbol {g} of {}", m.n()));
                        return;
                    }
                }
            }
            let _ = c.num_valid_bits();
            let _ = c.num_words();
            let _ = c.get_binary().map(|g| g.len());
            let _ = c.get_compressed().map(|g| g.len());
        }
        let _ = c.clone().into_binary();
        // forged seek on a seekable decoder
        let mut d = c.as_seekable_decoder();
        let _ = d.seek((rng.usize_in(0, 12), S::of(rng.edgy(s))));
        let m = &zoo[0];
        let _ = m.ans_decode(&mut d);
    }
    // range encoder with forged state and situation
    {
        let lower = S::of(rng.edgy(s));
        let range = S::of(rng.edgy(s));
        if let Ok(st) = RangeCoderState::<M::W, S>::new(lower, range) {
            let situation = match rng.below(3) {
                0 => EncoderSituation::Normal,
                _ => EncoderSituation::Inverted(NonZeroUsize::new(rng.usize_in(1, 5)).unwrap(), <M::W as Num>::of(rng.edgy(w))),
            };
            let mut e: RangeEncoder<M::W, S, Vec<M::W>> = RangeEncoder::from_raw_parts(bulk.clone(), st, situation);
            for _ in 0..rng.usize_in(1, 30) {
                let m = &zoo[rng.below(zoo.len() as u64) as usize];
                let _ = m.range_encode(&mut e, pick_symbol(rng, m.cdf()));
                let _ = e.num_words();
                if rng.chance(1, 4) {
                    let g = e.get_compressed();
                    let _ = g.len();
                }
            }
            let _ = e.into_compressed();
        }
        // range decoder with forged parts (validated by from_raw_parts) and forged seeks
        let point = S::of(rng.edgy(s));
        if let Ok(st) = RangeCoderState::<M::W, S>::new(S::of(rng.edgy(s)), S::of(rng.edgy(s))) {
            let cur = Cursor::new_at_pos(bulk.clone(), rng.usize_in(0, bulk.len())).unwrap();
            if let Ok(mut d) = RangeDecoder::<M::W, S, _>::from_raw_parts(cur, st, point) {
                for _ in 0..rng.usize_in(1, 30) {
                    let m = &zoo[rng.below(zoo.len() as u64) as usize];
                    match m.range_decode(&mut d) {
                        Ok(g) if g >= m.n() => {
                            run.violation("symbol-outside-model", "C20/forged-range-symbol-outside-support", format!("forged RangeDecoder returned symbol {g} of {}", m.n()));
                            return;
                        }
                        _ => {}
                    }
                    if rng.chance(1, 5) {
                        if let Ok(st2) = RangeCoderState::<M::W, S>::new(S::of(rng.edgy(s)), S::of(rng.edgy(s))) {
                            let _ = d.seek((rng.usize_in(0, 10), st2));
                        }
                    }
                    let _ = d.maybe_exhausted();
                }
            }
        }
    }
    run.nontrivial();
    run.describe(|| format!("forged coders W={w} S={s} state {:#x}", state.as_u()));
}

pub fn case(run: &mut Run, rng: &mut Rng) {
    if rng.bool() {
        match rng.below(4) {
            0 => cursor_abuse::<u8>(run, rng),
            1 => cursor_abuse::<u16>(run, rng),
            2 => cursor_abuse::<u32>(run, rng),
            _ => cursor_abuse::<u64>(run, rng),
        }
    } else {
        match rng.below(5) {
            0 => forged_coders::<ModelU8, u16>(run, rng),
            1 => forged_coders::<ModelU8, u32>(run, rng),
            2 => forged_coders::<ModelU16, u32>(run, rng),
            3 => forged_coders::<ModelU32, u64>(run, rng),
            _ => forged_coders::<ModelU64, u128>(run, rng),
        }
    }
}
