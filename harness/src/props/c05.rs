//! C05 — all representations of one entropy model are bit-for-bit the same model.
//!
//! Every representation's full `(symbol, cum, p)` table is obtained by its *native* access path
//! and compared pairwise; then a cross-coding pass encodes with one representation and decodes
//! with another on both stream coders.

use crate::modelcheck::*;
use crate::num::{pow2, Num};
use crate::prng::Rng;
use crate::props::c03::*;
use crate::quant_combos;
use crate::report::Run;
use constriction::stream::model::*;
use constriction::stream::queue::{DefaultRangeDecoder, DefaultRangeEncoder};
use constriction::stream::stack::AnsCoder;
use constriction::stream::{Decode, Encode};
use constriction::UnwrapInfallible;
use core::fmt::Debug;
use core::hash::Hash;
use num_traits::AsPrimitive;

struct Cmp<'a, S> {
    run: &'a mut Run,
    desc: &'a str,
    base_name: &'static str,
    base: &'a Table<S>,
    sig_prefix: &'static str,
    compared: u64,
}

impl<S: Debug + PartialEq + Clone> Cmp<'_, S> {
    /// returns false if a violation was reported
    fn against(&mut self, name: &str, t: Result<Table<S>, Bad>) -> bool {
        self.compared += 1;
        match t {
            Err(b) => {
                self.run.violation(
                    "representation-invalid",
                    &format!("{}/{}/{}", self.sig_prefix, sanitize(name), b.sig),
                    format!("{} :: representation `{name}`: {}", self.desc, b.detail),
                );
                false
            }
            Ok(t) => {
                if let Some(d) = first_difference(self.base, &t) {
                    self.run.violation(
                        "representations-differ",
                        &format!("{}/{}-differs", self.sig_prefix, sanitize(name)),
                        format!("{} :: `{}` vs `{name}`: {d}", self.desc, self.base_name),
                    );
                    false
                } else {
                    true
                }
            }
        }
    }
}

fn sanitize(s: &str) -> String {
    s.chars().map(|c| if c.is_ascii_alphanumeric() || c == '_' { c } else { '_' }).collect()
}

/// Table of an encoder-only model queried over a given symbol list.
fn enc_table<M, const P: usize>(m: &M, syms: impl Iterator<Item = M::Symbol>) -> Result<Table<M::Symbol>, Bad>
where
    M: EncoderModel<P>,
    M::Symbol: Clone + Debug,
    M::Probability: Num,
{
    table_via_encoder::<M, P>(m, syms)
}

// ------------------------------------------------------------------------------------------
// quantised models

fn quant_case<S, Pr, const P: usize>(run: &mut Run, rng: &mut Rng)
where
    S: SymT + AsPrimitive<Pr> + AsPrimitive<usize> + Hash + Default,
    Pr: Num + Into<f64>,
    f64: AsPrimitive<Pr> + AsPrimitive<S>,
{
    run.count("quantized_models", 1);
    let max_support = if run.small { 30 } else if run.thorough() { 4000 } else { 600 };
    let qc = gen_quantized::<S, Pr, P>(rng, max_support);
    let (lo, hi) = (qc.lo, qc.hi);
    let desc = format!("LeakyQuantizer<f64,{},{},{}>({lo}..={hi}).quantize({})", S::SNAME, Pr::NAME, P, qc.model.inner().describe());
    run.h(hash_str(&desc));
    run.note(|| desc.clone());
    let model = &qc.model;
    let support = || (lo..=hi).map(sym_from::<S>);
    let base = match table_via_encoder::<_, P>(model, support()) {
        Ok(t) => t,
        Err(_) => {
            // invalid model: C03's business (or a third-party CDF precondition problem)
            run.count("skipped_invalid_base_model", 1);
            return;
        }
    };
    if cdf_precondition_holds(model.inner(), lo, hi).is_err() {
        run.count("third_party_cdf_precondition_violated", 1);
        return;
    }
    model.inner().reset();
    let n = base.rows.len();
    let mut c = Cmp { run, desc: &desc, base_name: "encoder queries", base: &base, sig_prefix: "C05/quantized", compared: 0 };
    if !c.against("symbol_table", table_via_iter::<_, P>(model, n + 4)) {
        return;
    }
    model.inner().reset();
    if !c.against("&model (blanket impl) encoder queries", table_via_encoder::<_, P>(&model, support())) {
        return;
    }
    model.inner().reset();
    // generic conversions copy triples from symbol_table
    let ge = model.to_generic_encoder_model();
    if !c.against("to_generic_encoder_model", enc_table::<_, P>(&ge, support())) {
        return;
    }
    model.inner().reset();
    let gd = model.to_generic_decoder_model();
    if !c.against("to_generic_decoder_model (quantile walk)", table_via_decoder::<_, P>(&gd, n + 4)) {
        return;
    }
    if !c.against("to_generic_decoder_model.symbol_table", table_via_iter::<_, P>(&gd, n + 4)) {
        return;
    }
    // the accessors hand out the parts the model was made of: same support, and quantising the
    // same distribution again with the quantizer the model returns gives the same model
    if model.support() != (sym_from::<S>(lo)..=sym_from::<S>(hi)) {
        c.run.violation("representations-differ", "C05/quantized/support", format!("{desc} :: support() reports {:?}", model.support()));
        return;
    }
    let quantizer = qc.model.clone().quantizer();
    if quantizer.support() != (sym_from::<S>(lo)..=sym_from::<S>(hi)) {
        c.run.violation("representations-differ", "C05/quantized/support", format!("{desc} :: quantizer().support() reports {:?}", quantizer.support()));
        return;
    }
    let inner = qc.model.into_inner();
    inner.reset();
    let again = quantizer.quantize(inner);
    if !c.against("quantizer().quantize(into_inner())", table_via_encoder::<_, P>(&again, support())) {
        return;
    }
    let compared = c.compared;
    run.count("representations_compared", compared);
    if compared >= 3 {
        run.nontrivial();
    }
    run.describe(|| desc);
}

/// same, plus the lookup conversion (needs Probability: Into<usize>, i.e. u8 / u16)
fn quant_case_lookup<S, Pr, const P: usize>(run: &mut Run, rng: &mut Rng)
where
    S: SymT + AsPrimitive<Pr> + AsPrimitive<usize> + Hash + Default,
    Pr: Num + Into<f64> + Into<usize>,
    usize: AsPrimitive<Pr>,
    f64: AsPrimitive<Pr> + AsPrimitive<S>,
{
    run.count("quantized_models_with_lookup", 1);
    let qc = gen_quantized::<S, Pr, P>(rng, if run.small { 30 } else { 600 });
    let (lo, hi) = (qc.lo, qc.hi);
    let desc = format!("LeakyQuantizer<f64,{},{},{}>({lo}..={hi}).quantize({})", S::SNAME, Pr::NAME, P, qc.model.inner().describe());
    run.h(hash_str(&desc) ^ 0x100C);
    run.note(|| desc.clone());
    let model = &qc.model;
    let base = match table_via_encoder::<_, P>(model, (lo..=hi).map(sym_from::<S>)) {
        Ok(t) => t,
        Err(_) => {
            run.count("skipped_invalid_base_model", 1);
            return;
        }
    };
    if cdf_precondition_holds(model.inner(), lo, hi).is_err() {
        run.count("third_party_cdf_precondition_violated", 1);
        return;
    }
    model.inner().reset();
    let n = base.rows.len();
    let gl = model.to_generic_lookup_decoder_model();
    let mut c = Cmp { run, desc: &desc, base_name: "encoder queries", base: &base, sig_prefix: "C05/quantized", compared: 0 };
    if !c.against("to_generic_lookup_decoder_model (quantile walk)", table_via_decoder::<_, P>(&gl, n + 4)) {
        return;
    }
    if !c.against("to_generic_lookup_decoder_model.symbol_table", table_via_iter::<_, P>(&gl, n + 4)) {
        return;
    }
    let nc = gl.as_non_contiguous_categorical();
    if !c.against("lookup.as_non_contiguous_categorical (quantile walk)", table_via_decoder::<_, P>(&nc, n + 4)) {
        return;
    }
    let compared = c.compared;
    run.count("representations_compared", compared);
    run.nontrivial();
    run.describe(|| desc);
}

// ------------------------------------------------------------------------------------------
// categorical models from float tables

fn cat_case<F, Pr, const P: usize>(run: &mut Run, rng: &mut Rng)
where
    F: FloatT + AsPrimitive<Pr>,
    Pr: Num + AsPrimitive<usize> + AsPrimitive<F>,
    usize: AsPrimitive<Pr> + AsPrimitive<F>,
{
    run.count("categorical_models", 1);
    let cap = (pow2(P as u32) as usize).saturating_sub(2);
    if cap < 2 {
        return;
    }
    let max_len = cap.min(if run.small { 12 } else if run.thorough() { 2000 } else { 200 });
    let v: Vec<F> = gen_float_table(rng, max_len);
    for x in &v {
        let y: f64 = (*x).into();
        run.h(y.to_bits());
    }
    run.h(P as u64 ^ (F::MANT as u64) << 32 ^ 0xCA7 << 40);
    let n = v.len();
    let desc = format!("<{},{},{}> table {}", Pr::NAME, F::FNAME, P, table_desc(&v));
    run.note(|| desc.clone());
    let Ok(eager) = ContiguousCategoricalEntropyModel::<Pr, Vec<Pr>, P>::from_floating_point_probabilities_fast(&v, None) else {
        run.count("valid_float_table_rejected", 1);
        return;
    };
    let Ok(base) = table_via_encoder::<_, P>(&eager, 0..n) else {
        run.count("skipped_invalid_base_model", 1);
        return;
    };
    let mut c = Cmp { run, desc: &desc, base_name: "eager fast (encoder queries)", base: &base, sig_prefix: "C05/categorical", compared: 0 };
    if !c.against("eager.symbol_table", table_via_iter::<_, P>(&eager, n + 4)) {
        return;
    }
    if !c.against("eager (quantile walk)", table_via_decoder::<_, P>(&eager, n + 4)) {
        return;
    }
    if !c.against("eager.as_view", table_via_encoder::<_, P>(&eager.as_view(), 0..n)) {
        return;
    }
    // lazy, built by the same-named constructor from identical arguments
    match LazyContiguousCategoricalEntropyModel::<Pr, F, Vec<F>, P>::from_floating_point_probabilities_fast(v.clone(), None) {
        Ok(lazy) => {
            if !c.against("lazy fast (encoder queries)", table_via_encoder::<_, P>(&lazy, 0..n)) {
                return;
            }
            if !c.against("lazy fast (quantile walk)", table_via_decoder::<_, P>(&lazy, n + 4)) {
                return;
            }
            if !c.against("lazy.as_view (encoder queries)", table_via_encoder::<_, P>(&lazy.as_view(), 0..n)) {
                return;
            }
        }
        Err(()) => {
            c.run.violation("representations-differ", "C05/categorical/lazy-rejects-what-eager-accepts", format!("{desc} :: lazy constructor returned Err, eager Ok"));
            return;
        }
    }
    // non-contiguous with identity labels
    if let Ok(m) = NonContiguousCategoricalDecoderModel::<usize, Pr, Vec<(Pr, usize)>, P>::from_symbols_and_floating_point_probabilities_fast(0..n, &v, None) {
        if !c.against("non-contiguous decoder (identity labels)", table_via_decoder::<_, P>(&m, n + 4)) {
            return;
        }
        if !c.against("non-contiguous decoder.symbol_table", table_via_iter::<_, P>(&m, n + 4)) {
            return;
        }
        if !c.against("non-contiguous decoder.as_view", table_via_decoder::<_, P>(&m.as_view(), n + 4)) {
            return;
        }
        if m.support_size() != n {
            c.run.violation("representations-differ", "C05/categorical/support_size", format!("{desc} :: non-contiguous decoder reports support_size {} for {n} symbols", m.support_size()));
            return;
        }
        // generic conversions of the non-contiguous model (its own IterableEntropyModel impl)
        if !c.against("non-contiguous decoder.to_generic_encoder_model", table_via_encoder::<_, P>(&m.to_generic_encoder_model(), 0..n)) {
            return;
        }
        if !c.against("non-contiguous decoder.to_generic_decoder_model", table_via_decoder::<_, P>(&m.to_generic_decoder_model(), n + 4)) {
            return;
        }
        // the same model through a shared reference (the forwarding impls for &M)
        let r = &m;
        if !c.against("&non-contiguous decoder .symbol_table", table_via_iter::<_, P>(&r, n + 4)) {
            return;
        }
        let g = IterableEntropyModel::<P>::to_generic_decoder_model(&r);
        if !c.against("&non-contiguous decoder .to_generic_decoder_model", table_via_decoder::<_, P>(&g, n + 4)) {
            return;
        }
    }
    {
        let r = &eager;
        if !c.against("&eager .symbol_table", table_via_iter::<_, P>(&r, n + 4)) {
            return;
        }
        let g = IterableEntropyModel::<P>::to_generic_encoder_model(&r);
        if !c.against("&eager .to_generic_encoder_model", table_via_encoder::<_, P>(&g, 0..n)) {
            return;
        }
        let g = IterableEntropyModel::<P>::to_generic_decoder_model(&r);
        if !c.against("&eager .to_generic_decoder_model", table_via_decoder::<_, P>(&g, n + 4)) {
            return;
        }
    }
    if let Ok(m) = NonContiguousCategoricalEncoderModel::<usize, Pr, P>::from_symbols_and_floating_point_probabilities_fast(0..n, &v, None) {
        if !c.against("non-contiguous encoder (identity labels)", table_via_encoder::<_, P>(&m, 0..n)) {
            return;
        }
    }
    // generic conversions of the eager model
    let ge = eager.to_generic_encoder_model();
    if !c.against("eager.to_generic_encoder_model", table_via_encoder::<_, P>(&ge, 0..n)) {
        return;
    }
    let gd = eager.to_generic_decoder_model();
    if !c.against("eager.to_generic_decoder_model", table_via_decoder::<_, P>(&gd, n + 4)) {
        return;
    }
    let compared = c.compared;
    run.count("representations_compared", compared);
    run.nontrivial();

    run.describe(|| desc);
}

fn cat_case_lookup<F, Pr, const P: usize>(run: &mut Run, rng: &mut Rng)
where
    F: FloatT + AsPrimitive<Pr>,
    Pr: Num + AsPrimitive<usize> + AsPrimitive<F> + Into<usize> + Into<u32>,
    usize: AsPrimitive<Pr> + AsPrimitive<F>,
    u32: AsPrimitive<Pr>,
    f64: AsPrimitive<Pr>,
{
    run.count("categorical_models_with_lookup", 1);
    let cap = (pow2(P as u32) as usize).saturating_sub(2);
    let max_len = cap.min(if run.small { 10 } else { 120 });
    if max_len < 2 {
        return;
    }
    let v: Vec<F> = gen_float_table(rng, max_len);
    for x in &v {
        let y: f64 = (*x).into();
        run.h(y.to_bits());
    }
    run.h(P as u64 ^ 0x10 << 48);
    let n = v.len();
    let desc = format!("<{},{},{}> table {}", Pr::NAME, F::FNAME, P, table_desc(&v));
    run.note(|| desc.clone());
    let Ok(eager) = ContiguousCategoricalEntropyModel::<Pr, Vec<Pr>, P>::from_floating_point_probabilities_fast(&v, None) else {
        return;
    };
    let Ok(base) = table_via_encoder::<_, P>(&eager, 0..n) else {
        run.count("skipped_invalid_base_model", 1);
        return;
    };
    let mut c = Cmp { run, desc: &desc, base_name: "eager fast (encoder queries)", base: &base, sig_prefix: "C05/categorical", compared: 0 };
    let lk = eager.to_lookup_decoder_model();
    if !c.against("eager.to_lookup_decoder_model (quantile walk)", table_via_decoder::<_, P>(&lk, n + 4)) {
        return;
    }
    if !c.against("lookup.symbol_table", table_via_iter::<_, P>(&lk, n + 4)) {
        return;
    }
    if !c.against("lookup.as_view (quantile walk)", table_via_decoder::<_, P>(&lk.as_view(), n + 4)) {
        return;
    }
    if !c.against("lookup.as_contiguous_categorical (encoder queries)", table_via_encoder::<_, P>(&lk.as_contiguous_categorical(), 0..n)) {
        return;
    }
    if let Ok(direct) = ContiguousLookupDecoderModel::<Pr, Vec<Pr>, Box<[Pr]>, P>::from_floating_point_probabilities_fast(&v, None) {
        if !c.against("ContiguousLookupDecoderModel::fast (quantile walk)", table_via_decoder::<_, P>(&direct, n + 4)) {
            return;
        }
        if !c.against("ContiguousLookup::fast.into_contiguous_categorical", table_via_encoder::<_, P>(&direct.into_contiguous_categorical(), 0..n)) {
            return;
        }
    }
    let gl = eager.to_generic_lookup_decoder_model();
    if !c.against("eager.to_generic_lookup_decoder_model (quantile walk)", table_via_decoder::<_, P>(&gl, n + 4)) {
        return;
    }
    if let Ok(m) = NonContiguousLookupDecoderModel::<usize, Pr, Vec<(Pr, usize)>, Box<[Pr]>, P>::from_symbols_and_floating_point_probabilities_fast(0..n, &v, None) {
        if !c.against("NonContiguousLookup::fast identity labels (quantile walk)", table_via_decoder::<_, P>(&m, n + 4)) {
            return;
        }
        // ... and the lookup model obtained by converting the searched non-contiguous decoder
        if let Ok(nd) = NonContiguousCategoricalDecoderModel::<usize, Pr, Vec<(Pr, usize)>, P>::from_symbols_and_floating_point_probabilities_fast(0..n, &v, None) {
            if !c.against("non-contiguous decoder.to_lookup_decoder_model (quantile walk)", table_via_decoder::<_, P>(&nd.to_lookup_decoder_model(), n + 4)) {
                return;
            }
            if !c.against("non-contiguous decoder.as_view().to_lookup_decoder_model (quantile walk)", table_via_decoder::<_, P>(&nd.as_view().to_lookup_decoder_model(), n + 4)) {
                return;
            }
            if !c.against("non-contiguous decoder.to_generic_lookup_decoder_model (quantile walk)", table_via_decoder::<_, P>(&nd.to_generic_lookup_decoder_model(), n + 4)) {
                return;
            }
        }
        if !c.against("NonContiguousLookup.as_view (quantile walk)", table_via_decoder::<_, P>(&m.as_view(), n + 4)) {
            return;
        }
        if !c.against("NonContiguousLookup.symbol_table", table_via_iter::<_, P>(&m, n + 4)) {
            return;
        }
        if !c.against("NonContiguousLookup.as_non_contiguous_categorical (quantile walk)", table_via_decoder::<_, P>(&m.as_non_contiguous_categorical(), n + 4)) {
            return;
        }
        if !c.against("NonContiguousLookup.into_non_contiguous_categorical (quantile walk)", table_via_decoder::<_, P>(&m.into_non_contiguous_categorical(), n + 4)) {
            return;
        }
    }
    let compared = c.compared;
    run.count("representations_compared", compared);
    run.nontrivial();

    // cross-coding on the small preset coders (u16 words need Probability <= u16; use u32 words)
    let k = rng.usize_in(1, 60);
    let syms: Vec<usize> = (0..k).map(|_| rng.below(n as u64) as usize).collect();
    // ANS: encode with eager, decode with lookup and lazy-equivalent generic decoder
    let mut ans: AnsCoder<u32, u64, Vec<u32>> = AnsCoder::new();
    ans.encode_iid_symbols_reverse(&syms, &eager).unwrap();
    let mut a2 = ans.clone();
    let got: Vec<usize> = ans.decode_iid_symbols(k, &lk).map(|r| r.unwrap_infallible()).collect();
    let got2: Vec<usize> = a2.decode_iid_symbols(k, &gl).map(|r| r.unwrap_infallible()).collect();
    if got != syms || got2 != syms {
        run.violation("cross-coding", "C05/cross-coding-ans", format!("{desc} :: encoded {:?} with the eager model, lookup decoded {:?}, generic lookup decoded {:?}", syms, got, got2));
        return;
    }
    // range: encode with generic encoder model, decode with lookup
    let ge = eager.to_generic_encoder_model();
    let mut enc = DefaultRangeEncoder::new();
    enc.encode_iid_symbols(&syms, &ge).unwrap();
    let mut dec = DefaultRangeDecoder::from_compressed(enc.into_compressed().unwrap()).unwrap();
    let got3: Result<Vec<usize>, _> = dec.decode_iid_symbols(k, &lk).collect();
    if got3.as_ref().ok() != Some(&syms) {
        run.violation("cross-coding", "C05/cross-coding-range", format!("{desc} :: encoded {:?} with the generic encoder model, lookup decoded {:?}", syms, got3));
        return;
    }
    run.count("cross_coding_passes", 1);
    run.describe(|| desc);
}

// ------------------------------------------------------------------------------------------
// uniform models

fn uniform_case<Pr, const P: usize>(run: &mut Run, rng: &mut Rng)
where
    Pr: Num + AsPrimitive<usize>,
    usize: AsPrimitive<Pr>,
{
    run.count("uniform_models", 1);
    let total = pow2(P as u32).min(usize::MAX as u128) as usize;
    let cap = if run.small { 50 } else { 3000 };
    let range = rng.usize_in(2, total.min(cap));
    run.h(range as u64 ^ (P as u64) << 48 ^ 0x0F << 56);
    let m = UniformModel::<Pr, P>::new(range);
    let desc = format!("UniformModel::<{},{}>::new({range})", Pr::NAME, P);
    run.note(|| desc.clone());
    let Ok(base) = table_via_encoder::<_, P>(&m, 0..range) else {
        run.count("skipped_invalid_base_model", 1);
        return;
    };
    let mut c = Cmp { run, desc: &desc, base_name: "encoder queries", base: &base, sig_prefix: "C05/uniform", compared: 0 };
    if !c.against("symbol_table", table_via_iter::<_, P>(&m, range + 4)) {
        return;
    }
    if !c.against("quantile walk", table_via_decoder::<_, P>(&m, range + 4)) {
        return;
    }
    let ge = m.to_generic_encoder_model();
    if !c.against("to_generic_encoder_model", table_via_encoder::<_, P>(&ge, 0..range)) {
        return;
    }
    let gd = m.to_generic_decoder_model();
    if !c.against("to_generic_decoder_model", table_via_decoder::<_, P>(&gd, range + 4)) {
        return;
    }
    let compared = c.compared;
    run.count("representations_compared", compared);
    run.nontrivial();
    run.describe(|| desc);
}

pub fn case(run: &mut Run, rng: &mut Rng) {
    match rng.below(10) {
        0..=2 => quant_combos!(run, rng, quant_case),
        3 => {
            let combos: &[fn(&mut Run, &mut Rng)] = &[
                quant_case_lookup::<i8, u8, 8>,
                quant_case_lookup::<i16, u16, 12>,
                quant_case_lookup::<i32, u16, 12>,
                quant_case_lookup::<u8, u16, 16>,
                quant_case_lookup::<i32, u8, 4>,
            ];
            let k = rng.below(combos.len() as u64) as usize;
            combos[k](run, rng)
        }
        4..=6 => {
            let combos: &[fn(&mut Run, &mut Rng)] = &[
                cat_case::<f64, u8, 8>,
                cat_case::<f64, u16, 12>,
                cat_case::<f64, u32, 24>,
                cat_case::<f64, u32, 32>,
                cat_case::<f32, u16, 12>,
                cat_case::<f32, u32, 24>,
                cat_case::<f32, u32, 32>,
                cat_case::<f64, u64, 53>,
                cat_case::<f64, u64, 64>,
            ];
            let k = rng.below(combos.len() as u64) as usize;
            combos[k](run, rng)
        }
        7 | 8 => {
            let combos: &[fn(&mut Run, &mut Rng)] = &[
                cat_case_lookup::<f64, u8, 8>,
                cat_case_lookup::<f64, u16, 12>,
                cat_case_lookup::<f32, u16, 12>,
                cat_case_lookup::<f64, u16, 16>,
            ];
            let k = rng.below(combos.len() as u64) as usize;
            combos[k](run, rng)
        }
        _ => {
            let combos: &[fn(&mut Run, &mut Rng)] = &[uniform_case::<u8, 8>, uniform_case::<u16, 12>, uniform_case::<u32, 24>, uniform_case::<u32, 32>];
            let k = rng.below(combos.len() as u64) as usize;
            combos[k](run, rng)
        }
    }
}
