//! C08 — inspecting a coder never changes what it will output.
//!
//! Oracles: `clone().into_compressed()` as "what finishing now would return"; raw parts equal
//! before/after every dropped view; final output equal to an uninspected twin fed the same ops.

use crate::num::{mask, Num};
use crate::prng::Rng;
use crate::props::c01::words_u128;
use crate::props::c02::describe_msg;
use crate::range_rows;
use crate::rangew::*;
use crate::report::Run;
use crate::table::*;
use constriction::stream::queue::RangeEncoder;
use constriction::stream::stack::AnsCoder;
use constriction::stream::Code;
use constriction::symbol::{QueueEncoder, ReadBitStream, StackCoder, WriteBitStream};
use constriction::{Pos, Seek, UnwrapInfallible};
use num_traits::AsPrimitive;

// --------------------------------------------------------------------------------------------
// ANS

fn ans_row<M: ModelSet, S: Num>(run: &mut Run, rng: &mut Rng)
where
    S: AsPrimitive<M::W> + From<M::W>,
{
    let w = <M::W as Num>::NBITS;
    let s = S::NBITS;
    run.h(1 << 60 | w as u64 * 1000 + s as u64);
    run.count(row_name(w, s), 1);
    run.count("ans_cases", 1);
    let n = rng.usize_in(0, if run.small { 25 } else if run.thorough() { 400 } else { 120 });
    let zk = rng.usize_in(1, 4);
    let zoo: Vec<M> = gen_zoo(rng, zk, if run.small { 8 } else { 40 });
    let from_binary = rng.chance(1, 3);
    let init: Vec<M::W> = if from_binary { crate::props::c01::gen_words(rng, 6, false) } else { Vec::new() };
    let mk = |init: &Vec<M::W>| -> AnsCoder<M::W, S, Vec<M::W>> {
        if from_binary {
            AnsCoder::from_binary(init.clone()).unwrap_infallible()
        } else {
            AnsCoder::new()
        }
    };
    let mut clone_via: crate::report::CloneVia<AnsCoder<M::W, S, Vec<M::W>>> = crate::report::CloneVia::new();
    let mut coder = mk(&init);
    let mut twin = mk(&init);
    let mut stack: Vec<(usize, usize)> = Vec::new();
    let mut inspections = 0u64;
    let mut empty_inspections = 0u64;
    macro_rules! fail {
        ($sig:expr, $($arg:tt)*) => {{
            run.violation("inspection-changed-coder", $sig, format!("ANS W={} S={} init={:?} after {} ops :: {}", <M::W as Num>::NAME, S::NAME, words_u128(&init), stack.len(), format!($($arg)*)));
            return;
        }};
    }
    for step in 0..=n {
        // inspections at this point
        if rng.bool() {
            for _ in 0..rng.usize_in(1, 3) {
                inspections += 1;
                if coder.is_empty() {
                    empty_inspections += 1;
                }
                let before = (coder.bulk().clone(), coder.state());
                let would = coder.clone().into_compressed().unwrap_infallible();
                let kind = rng.below(9);
                match kind {
                    0 => {
                        let g = coder.get_compressed().unwrap_infallible();
                        if **g != would[..] {
                            let got = words_u128(&g);
                            drop(g);
                            fail!("C08/ans-view-differs", "get_compressed shows {:?}, finishing now returns {:?}", got, words_u128(&would));
                        }
                    }
                    1 => {
                        let would_bin = coder.clone().into_binary();
                        let r = coder.get_binary();
                        match (r, would_bin) {
                            (Ok(g), Ok(wb)) => {
                                if **g != wb[..] {
                                    let got = words_u128(&g);
                                    drop(g);
                                    fail!("C08/ans-view-differs", "get_binary shows {:?}, into_binary returns {:?}", got, words_u128(&wb));
                                }
                            }
                            (Err(_), Err(_)) => {
                                run.count("get_binary_err_path", 1);
                            }
                            (Ok(g), Err(_)) => {
                                let got = words_u128(&g);
                                drop(g);
                                fail!("C08/ans-view-differs", "get_binary gives {:?} but into_binary fails", got);
                            }
                            (Err(_), Ok(wb)) => fail!("C08/ans-view-differs", "get_binary fails but into_binary gives {:?}", words_u128(&wb)),
                        }
                    }
                    2 => {
                        let it: Vec<M::W> = coder.iter_compressed().collect();
                        if it != would {
                            fail!("C08/ans-view-differs", "iter_compressed yields {:?}, finishing now returns {:?}", words_u128(&it), words_u128(&would));
                        }
                    }
                    3 | 4 => {
                        // temporary decoder: decode a few symbols from it
                        let k = stack.len().min(rng.usize_in(0, 5));
                        if kind == 3 {
                            let mut d = coder.as_decoder();
                            for j in 0..k {
                                let (mi, sym) = stack[stack.len() - 1 - j];
                                let g = zoo[mi].ans_decode(&mut d).unwrap_infallible();
                                if g != sym {
                                    fail!("C08/ans-temp-decoder-wrong", "as_decoder pop #{j} gave {g}, expected {sym}");
                                }
                            }
                        } else {
                            let mut d = coder.as_seekable_decoder();
                            let p0 = d.pos();
                            for j in 0..k {
                                let (mi, sym) = stack[stack.len() - 1 - j];
                                let g = zoo[mi].ans_decode(&mut d).unwrap_infallible();
                                if g != sym {
                                    fail!("C08/ans-temp-decoder-wrong", "as_seekable_decoder pop #{j} gave {g}, expected {sym}");
                                }
                            }
                            let _ = d.seek(p0);
                        }
                    }
                    5 => {
                        let nw = coder.num_words();
                        if nw != would.len() || coder.num_bits() != would.len() * w as usize {
                            fail!("C08/ans-size-differs", "num_words()={nw}, finishing now returns {} words", would.len());
                        }
                        let _ = coder.num_valid_bits();
                    }
                    6 => {
                        if coder.is_empty() != would.is_empty() {
                            fail!("C08/ans-size-differs", "is_empty()={} but export has {} words", coder.is_empty(), would.len());
                        }
                    }
                    7 => {
                        // a clone (by clone() or by clone_from() onto an older copy) finishes to the same words
                        let c2 = clone_via.clone_of(run, rng, &coder);
                        let got = c2.into_compressed().unwrap_infallible();
                        if got != would {
                            fail!("C08/ans-clone-differs", "a clone finishes to {} words, the coder itself to {}", got.len(), would.len());
                        }
                    }
                    _ => {
                        let _ = coder.pos();
                        let _ = format!("{:?}", coder);
                    }
                }
                if coder.bulk() != &before.0 || coder.state() != before.1 {
                    fail!("C08/ans-raw-parts-changed", "inspection kind {kind} changed raw parts: bulk {:?}->{:?}, state {:#x}->{:#x}", words_u128(&before.0), words_u128(coder.bulk()), before.1.as_u(), coder.state().as_u());
                }
            }
        }
        if step == n {
            break;
        }
        // one real operation on both
        if !stack.is_empty() && rng.chance(1, 4) {
            let (mi, sym) = stack.pop().unwrap();
            let a = zoo[mi].ans_decode(&mut coder).unwrap_infallible();
            let b = zoo[mi].ans_decode(&mut twin).unwrap_infallible();
            if a != sym || b != sym {
                fail!("C08/ans-twin-diverges", "pop gave {a} (inspected) / {b} (twin), expected {sym}");
            }
        } else {
            let mi = rng.below(zoo.len() as u64) as usize;
            let sym = pick_symbol(rng, zoo[mi].cdf());
            zoo[mi].ans_encode(&mut coder, sym).expect("encode");
            zoo[mi].ans_encode(&mut twin, sym).expect("encode");
            stack.push((mi, sym));
            run.h(sym as u64 ^ (mi as u64) << 40);
        }
    }
    let a = coder.into_compressed().unwrap_infallible();
    let b = twin.into_compressed().unwrap_infallible();
    if a != b {
        fail!("C08/ans-twin-diverges", "final output {:?} differs from the uninspected twin's {:?}", words_u128(&a), words_u128(&b));
    }
    run.count("ans_inspections", inspections);
    run.count("inspections_on_empty_coder", empty_inspections);
    if empty_inspections > 0 {
        run.nontrivial();
    }
    run.describe(|| format!("ANS W={} S={} init={:?} n={n} inspections={inspections}", <M::W as Num>::NAME, S::NAME, words_u128(&init)));
}

// --------------------------------------------------------------------------------------------
// Range encoder

fn range_row<M: ModelSet, S: Num>(run: &mut Run, rng: &mut Rng)
where
    S: AsPrimitive<M::W> + From<M::W>,
{
    let w = <M::W as Num>::NBITS;
    let s = S::NBITS;
    run.h(2 << 60 | w as u64 * 1000 + s as u64);
    run.count(row_name(w, s), 1);
    run.count("range_cases", 1);
    let n = rng.usize_in(0, if run.small { 25 } else if run.thorough() { 400 } else { 120 });
    // 1/4 of the encoders start on a sink that already holds words (documented use of with_backend)
    let prefix: Vec<M::W> = if rng.chance(1, 4) { crate::props::c01::gen_words(rng, 4, false) } else { Vec::new() };
    if !prefix.is_empty() {
        run.count("range_encoders_on_prefilled_sink", 1);
    }
    let mut enc: Enc<M, S> = if prefix.is_empty() { RangeEncoder::new() } else { RangeEncoder::with_backend(prefix.clone()) };
    let mut msg = Msg::<M> { zoo: Vec::new(), syms: Vec::new() };
    let mut edges = Edges::default();
    let cfg = DriveCfg { n, steer_16: if rng.bool() { 12 } else { 2 }, max_n_symbols: if run.small { 8 } else { 40 }, end_near_16: 2 };
    let mut clone_via: crate::report::CloneVia<Enc<M, S>> = crate::report::CloneVia::new();
    let mut inspections = 0u64;
    let mut inverted_inspections = 0u64;
    let mut empty_inspections = 0u64;
    let ok = drive(run, rng, &mut enc, &mut msg, None, &mut edges, &cfg, |run, rng, e, msg, i| {
        if !rng.bool() {
            return true;
        }
        for _ in 0..rng.usize_in(1, 3) {
            inspections += 1;
            let inv = num_inverted::<M, S>(e) > 0;
            if inv {
                inverted_inspections += 1;
            }
            if i == 0 {
                empty_inspections += 1;
            }
            let before = e.clone().into_raw_parts();
            let would: Vec<M::W> = e.clone().into_compressed().unwrap_infallible();
            let kind = rng.below(6);
            let mut bad: Option<String> = None;
            match kind {
                0 => {
                    let g = e.get_compressed();
                    if *g != would[..] {
                        bad = Some(format!("get_compressed shows {:?}, finishing now returns {:?}", words_u128(&g), words_u128(&would)));
                    }
                }
                1 => {
                    // (over a pre-filled sink the temporary decoder starts at the sink's first word,
                    // i.e. not at this message: then only its creation and disposal are exercised)
                    let k = if prefix.is_empty() { i.min(rng.usize_in(0, 6)) } else { 0 };
                    let mut d = e.decoder();
                    for (j, &(mi, sym)) in msg.syms.iter().enumerate().take(k) {
                        match msg.zoo[mi].range_decode(&mut d) {
                            Ok(g) if g == sym => {}
                            other => {
                                bad = Some(format!("decoder() symbol #{j} gave {other:?}, expected {sym}"));
                                break;
                            }
                        }
                    }
                }
                2 => {
                    let nw = e.num_words();
                    if nw != would.len() || e.num_bits() != would.len() * w as usize {
                        bad = Some(format!("num_words()={nw} num_bits()={} but finishing now returns {} words", e.num_bits(), would.len()));
                    }
                }
                3 => {
                    if e.is_empty() != would.is_empty() {
                        bad = Some(format!("is_empty()={} but export has {} words", e.is_empty(), would.len()));
                    }
                }
                4 => {
                    let c = clone_via.clone_of(run, rng, e);
                    let got: Vec<M::W> = c.into_compressed().unwrap_infallible();
                    if got != would {
                        bad = Some(format!("a clone finishes to {:?}, the encoder itself to {:?}", words_u128(&got), words_u128(&would)));
                    }
                }
                _ => {
                    let _ = e.pos();
                    let _ = e.maybe_full();
                    let _ = format!("{:?}", e.state());
                }
            }
            let after = e.clone().into_raw_parts();
            if bad.is_none() && (after.0 != before.0 || after.1 != before.1 || after.2 != before.2) {
                bad = Some(format!(
                    "inspection kind {kind} changed raw parts: bulk {:?}->{:?}, state {:?}->{:?}, situation {:?}->{:?}",
                    words_u128(&before.0), words_u128(&after.0), before.1, after.1, before.2, after.2
                ));
            }
            if let Some(b) = bad {
                let sig = match kind {
                    0 => "C08/range-view-differs",
                    1 => "C08/range-temp-decoder-wrong",
                    2 | 3 => "C08/range-size-differs",
                    _ => "C08/range-raw-parts-changed",
                };
                let sig = if b.contains("changed raw parts") { "C08/range-raw-parts-changed" } else { sig };
                run.violation(
                    "inspection-changed-coder",
                    sig,
                    format!("RANGE W={} S={} before symbol {i} (inverted={inv}) :: {b} :: {}", <M::W as Num>::NAME, S::NAME, describe_msg(msg)),
                );
                return false;
            }
        }
        true
    });
    if !ok {
        return;
    }
    edges.publish(run);
    // uninspected twin
    let mut twin: Enc<M, S> = if prefix.is_empty() { RangeEncoder::new() } else { RangeEncoder::with_backend(prefix.clone()) };
    for &(mi, sym) in &msg.syms {
        msg.zoo[mi].range_encode(&mut twin, sym).expect("twin encode");
    }
    let a = enc.into_compressed().unwrap_infallible();
    let b = twin.into_compressed().unwrap_infallible();
    if a != b {
        run.violation(
            "inspection-changed-coder",
            "C08/range-twin-diverges",
            format!("RANGE W={} S={} {} :: final output {:?} differs from the uninspected twin's {:?}", <M::W as Num>::NAME, S::NAME, describe_msg(&msg), words_u128(&a), words_u128(&b)),
        );
        return;
    }
    run.count("range_inspections", inspections);
    run.count("range_inspections_while_inverted", inverted_inspections);
    run.count("inspections_on_empty_coder", empty_inspections);
    if inverted_inspections > 0 || empty_inspections > 0 {
        run.nontrivial();
    }
    run.describe(|| format!("RANGE W={} S={} {} inspections={inspections} ({} while inverted)", <M::W as Num>::NAME, S::NAME, describe_msg(&msg), inverted_inspections));
}

// --------------------------------------------------------------------------------------------
// bit-level stack / queue coders

fn pack_queue(bits: &[bool], w: u32) -> Vec<u128> {
    let mut out = Vec::new();
    for (i, &b) in bits.iter().enumerate() {
        if i % w as usize == 0 {
            out.push(0u128);
        }
        if b {
            *out.last_mut().unwrap() |= 1u128 << (i % w as usize);
        }
    }
    out
}

fn pack_stack(bits: &[bool], w: u32) -> Vec<u128> {
    let mut b = bits.to_vec();
    b.push(true);
    pack_queue(&b, w)
}

fn bits_row<W: Num>(run: &mut Run, rng: &mut Rng) {
    let w = W::NBITS;
    run.h(3 << 60 | w as u64);
    run.count("bit_cases", 1);
    let is_stack = rng.bool();
    let n = rng.usize_in(0, if run.small { 40 } else { 3 * w as usize + 20 });
    let mut bits: Vec<bool> = Vec::new();
    let mut inspections = 0u64;
    let mut boundary_inspections = 0u64;
    macro_rules! fail {
        ($sig:expr, $($arg:tt)*) => {{
            run.violation("inspection-changed-coder", $sig, format!("bit coder W={} stack={is_stack} bits={:?} :: {}", W::NAME, bits.iter().map(|&b| b as u8).collect::<Vec<_>>(), format!($($arg)*)));
            return;
        }};
    }
    if is_stack {
        let mut c = StackCoder::<W>::new();
        let mut twin = StackCoder::<W>::new();
        for step in 0..=n {
            if rng.bool() || bits.len() % w as usize == 0 {
                inspections += 1;
                if bits.len() % w as usize == 0 {
                    boundary_inspections += 1;
                }
                match rng.below(5) {
                    0 => {
                        let g = c.get_compressed();
                        let got = words_u128(&g);
                        drop(g);
                        let exp = pack_stack(&bits, w);
                        if got != exp {
                            fail!("C08/bits-view-differs", "StackCoder::get_compressed {:?}, expected {:?}", got, exp);
                        }
                    }
                    1 => {
                        if c.len() != bits.len() {
                            fail!("C08/bits-size-differs", "len()={} expected {}", c.len(), bits.len());
                        }
                    }
                    2 => {
                        if c.is_empty() != bits.is_empty() {
                            fail!("C08/bits-size-differs", "is_empty()={} with {} bits", c.is_empty(), bits.len());
                        }
                    }
                    3 => {
                        let got: Vec<bool> = c.iter().map(|r| r.unwrap_infallible()).collect();
                        let mut exp = bits.clone();
                        exp.reverse();
                        if got != exp {
                            fail!("C08/bits-view-differs", "iter() yields {} bits {:?}", got.len(), got.iter().map(|&b| b as u8).collect::<Vec<_>>());
                        }
                    }
                    _ => {
                        let mut d = c.as_decoder();
                        for j in 0..bits.len().min(5) {
                            let g = d.read_bit().unwrap_infallible();
                            if g != Some(bits[bits.len() - 1 - j]) {
                                fail!("C08/bits-view-differs", "as_decoder bit #{j} = {g:?}");
                            }
                        }
                    }
                }
            }
            if step == n {
                break;
            }
            if !bits.is_empty() && rng.chance(1, 4) {
                let a = c.read_bit().unwrap_infallible();
                let b = twin.read_bit().unwrap_infallible();
                let e = bits.pop();
                if a != e || b != e {
                    fail!("C08/bits-twin-diverges", "read_bit gave {a:?}/{b:?}, expected {e:?}");
                }
            } else {
                let b = rng.bool();
                c.write_bit(b).unwrap_infallible();
                twin.write_bit(b).unwrap_infallible();
                bits.push(b);
                run.h(b as u64 + 2);
            }
        }
        let a = c.into_compressed().unwrap_infallible();
        let b = twin.into_compressed().unwrap_infallible();
        if a != b || words_u128(&a) != pack_stack(&bits, w) {
            fail!("C08/bits-twin-diverges", "final {:?} vs twin {:?} vs expected {:?}", words_u128(&a), words_u128(&b), pack_stack(&bits, w));
        }
    } else {
        let mut c = QueueEncoder::<W>::new();
        let mut twin = QueueEncoder::<W>::new();
        for step in 0..=n {
            if rng.bool() || bits.len() % w as usize == 0 {
                inspections += 1;
                if bits.len() % w as usize == 0 {
                    boundary_inspections += 1;
                }
                match rng.below(3) {
                    0 => {
                        let g = c.get_compressed();
                        let got = words_u128(&g);
                        drop(g);
                        let exp = pack_queue(&bits, w);
                        if got != exp {
                            fail!("C08/bits-view-differs", "QueueEncoder::get_compressed {:?}, expected {:?}", got, exp);
                        }
                    }
                    1 => {
                        if c.len() != bits.len() {
                            fail!("C08/bits-size-differs", "len()={} expected {}", c.len(), bits.len());
                        }
                    }
                    _ => {
                        if c.is_empty() != bits.is_empty() {
                            fail!("C08/bits-size-differs", "is_empty()={} with {} bits", c.is_empty(), bits.len());
                        }
                    }
                }
            }
            if step == n {
                break;
            }
            let b = rng.bool();
            c.write_bit(b).unwrap_infallible();
            twin.write_bit(b).unwrap_infallible();
            bits.push(b);
            run.h(b as u64 + 2);
        }
        let a = c.into_compressed().unwrap_infallible();
        let b = twin.into_compressed().unwrap_infallible();
        if a != b || words_u128(&a) != pack_queue(&bits, w) {
            fail!("C08/bits-twin-diverges", "final {:?} vs twin {:?} vs expected {:?}", words_u128(&a), words_u128(&b), pack_queue(&bits, w));
        }
    }
    let _ = mask(1);
    run.count("bit_inspections", inspections);
    run.count("bit_inspections_at_word_boundary", boundary_inspections);
    if boundary_inspections > 0 {
        run.nontrivial();
    }
    run.describe(|| format!("BITS W={} stack={is_stack} n={n} inspections={inspections}", W::NAME));
}

pub fn case(run: &mut Run, rng: &mut Rng) {
    match rng.below(5) {
        0 | 1 => range_rows!(run, rng, ans_row),
        2 | 3 => range_rows!(run, rng, range_row),
        _ => match rng.below(5) {
            0 => bits_row::<u8>(run, rng),
            1 => bits_row::<u16>(run, rng),
            2 => bits_row::<u32>(run, rng),
            3 => bits_row::<u64>(run, rng),
            _ => bits_row::<usize>(run, rng),
        },
    }
}
