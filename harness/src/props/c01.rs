//! C01 — ANS coder is a lossless stack under any history of pushes, pops and reloads.
//!
//! Monitors: shadow stack (symbol, model, hash of the exported words at that level), twin coder
//! for batch-form equivalence, lock-step reference rANS (`refimpl::RefAns`) on head and bulk.

use crate::num::{mask, pow2, Num};
use crate::prng::Rng;
use crate::refimpl::RefAns;
use crate::report::Run;
use crate::table::*;
use constriction::backends::{Cursor, ReadWords};
use constriction::stream::stack::AnsCoder;
use constriction::stream::{Code, Decode};
use constriction::{BitArray, Stack, UnwrapInfallible};
use num_traits::AsPrimitive;

pub fn words_u128<W: Num>(v: &[W]) -> Vec<u128> {
    v.iter().map(|w| w.as_u()).collect()
}

pub fn hash_words(it: impl Iterator<Item = u128>) -> (u64, usize) {
    let mut h = 0x9E37_79B9_7F4A_7C15u64;
    let mut n = 0usize;
    for w in it {
        h ^= w as u64 ^ ((w >> 64) as u64).rotate_left(17);
        h = h.wrapping_mul(0x0000_0100_0000_01B3).rotate_left(23) ^ (n as u64);
        n += 1;
    }
    (h, n)
}

/// Random words suitable for `from_compressed` (last word non-zero) of random length.
pub fn gen_words<W: Num>(rng: &mut Rng, max_len: usize, last_nonzero: bool) -> Vec<W> {
    let len = rng.usize_in(0, max_len);
    let mut v: Vec<W> = (0..len)
        .map(|_| match rng.below(6) {
            0 => W::of(0),
            1 => W::of(mask(W::NBITS)),
            _ => W::of(rng.edgy(W::NBITS)),
        })
        .collect();
    if last_nonzero {
        if let Some(l) = v.last_mut() {
            if *l == W::zero() {
                *l = W::of(1 + rng.below128(mask(W::NBITS)));
            }
        }
    }
    v
}

struct Shadow {
    sym: usize,
    model: usize,
    /// hash + length of the exported words *before* this symbol was pushed
    snap: (u64, usize),
}

fn snapshot<W: Num, S>(c: &AnsCoder<W, S, Vec<W>>) -> (u64, usize)
where
    W: Into<S>,
    S: BitArray + AsPrimitive<W>,
{
    hash_words(c.iter_compressed().map(|w| w.as_u()))
}

fn check_ref<W: Num, S: Num>(
    run: &mut Run,
    c: &AnsCoder<W, S, Vec<W>>,
    r: &RefAns,
    full: bool,
    what: &str,
) -> bool
where
    W: Into<S>,
    S: AsPrimitive<W>,
{
    let ok_head = c.state().as_u() == r.head;
    let ok_len = c.bulk().len() == r.bulk.len();
    let ok_bulk = !full || words_u128(c.bulk()) == r.bulk;
    if !(ok_head && ok_len && ok_bulk) {
        run.violation(
            "reference-divergence",
            "C01/ref-diverges",
            format!(
                "after {what}: library head={:#x} bulk_len={} vs reference head={:#x} bulk_len={} (W={},S={})",
                c.state().as_u(),
                c.bulk().len(),
                r.head,
                r.bulk.len(),
                W::NAME,
                S::NAME
            ),
        );
        return false;
    }
    true
}

pub fn case_row<M: ModelSet, S: Num>(run: &mut Run, rng: &mut Rng)
where
    S: AsPrimitive<M::W> + From<M::W>,
{
    type Coder<M, S> = AnsCoder<<M as ModelSet>::W, S, Vec<<M as ModelSet>::W>>;
    let w = <M::W as Num>::NBITS;
    let s = S::NBITS;
    run.h(w as u64 * 1000 + s as u64);
    let max_ops = if run.small { 30 } else if run.thorough() { 400 } else { 160 };
    let n_ops = rng.usize_in(1, max_ops);
    let zoo_k = rng.usize_in(1, 5);
    let mut zoo: Vec<M> = gen_zoo(rng, zoo_k, if run.small { 8 } else { 40 });

    // ---- start state
    let start_kind = rng.below(4);
    let init_words: Vec<M::W> = match start_kind {
        0 | 1 => Vec::new(),
        _ => gen_words(rng, 12, true),
    };
    // start from raw binary data in 1/4 of the imported starts (the implicit marker word then
    // becomes part of the exported words)
    let binary_start = start_kind == 3 && rng.bool();
    let mut clone_via: crate::report::CloneVia<Coder<M, S>> = crate::report::CloneVia::new();
    let mut coder: Coder<M, S> = if binary_start {
        run.count("starts_from_binary", 1);
        AnsCoder::from_binary(init_words.clone()).unwrap_infallible()
    } else {
        match AnsCoder::from_compressed(init_words.clone()) {
            Ok(c) => c,
            Err(_) => {
                run.violation(
                    "import-refused",
                    "C01/from_compressed-refused",
                    format!("from_compressed refused {:?}", words_u128(&init_words)),
                );
                return;
            }
        }
    };
    let mut reference = if binary_start { RefAns::from_binary(w, s, &words_u128(&init_words)) } else { RefAns::from_compressed(w, s, &words_u128(&init_words)).unwrap() };
    if !check_ref(run, &coder, &reference, true, "import") {
        return;
    }
    let initial_export = reference.compressed();
    let mut shadow: Vec<Shadow> = Vec::new();
    let mut flushes = 0u64;
    let mut refills = 0u64;
    let mut reimports = 0u64;
    let mut log: Vec<String> = Vec::new();
    let want_log = run.wants_description();
    let mut steered = 0u64;

    macro_rules! fail {
        ($kind:expr, $sig:expr, $($arg:tt)*) => {{
            run.violation($kind, $sig, format!("W={} S={} init={:?} :: {}", <M::W as Num>::NAME, S::NAME, initial_export, format!($($arg)*)));
            return;
        }};
    }

    for _ in 0..n_ops {
        let op = rng.below(100);
        if op < 38 || shadow.is_empty() && op < 70 {
            // ---------------- single push (possibly steered to the flush edge)
            let mut mi = rng.below(zoo.len() as u64) as usize;
            let mut sym = pick_symbol(rng, zoo[mi].cdf());
            if rng.chance(1, 3) {
                // AnsSteer: build a model containing a symbol whose probability sits exactly on
                // the flush threshold state >> (S - P) (or one off).
                let v = rng.below(M::PRECS.len() as u64) as usize;
                let p = M::PRECS[v].0;
                let t = coder.state().as_u() >> (s - p);
                let d = rng.below(3) as i128 - 1;
                let want = t as i128 + d;
                if want >= 1 && (want as u128) < pow2(p) {
                    let want = want as u128;
                    let cum = rng.below128(pow2(p) - want + 1);
                    let mut cdf = vec![0u128];
                    if cum > 0 {
                        cdf.push(cum);
                    }
                    let target = cdf.len() - 1;
                    if cum + want < pow2(p) {
                        cdf.push(cum + want);
                    }
                    cdf.push(pow2(p));
                    if cdf.len() >= 3 {
                        zoo.push(M::from_cdf(v, cdf));
                        mi = zoo.len() - 1;
                        sym = target;
                        steered += 1;
                    }
                }
            }
            let snap = snapshot(&coder);
            let before_len = coder.bulk().len();
            let (cum, p) = zoo[mi].cp(sym);
            let prec = zoo[mi].prec();
            if zoo[mi].ans_encode(&mut coder, sym).is_err() {
                fail!("encode-failed", "C01/encode-error", "encode_symbol returned Err for in-support symbol {sym} of {:?}", zoo[mi].cdf());
            }
            reference.encode(cum, p, prec);
            let after_len = coder.bulk().len();
            if after_len > before_len + 1 {
                fail!("multi-flush", "C01/multi-flush", "one encode_symbol flushed {} words", after_len - before_len);
            }
            flushes += (after_len - before_len) as u64;
            run.h(sym as u64 ^ (prec as u64) << 32);
            run.h128(cum ^ p << 64);
            shadow.push(Shadow { sym, model: mi, snap });
            if want_log {
                log.push(format!("push(sym={sym},P={prec},cum={cum},p={p})"));
            }
            if !check_ref(run, &coder, &reference, false, "encode_symbol") {
                return;
            }
        } else if op < 50 {
            // ---------------- batch push in one of the batch forms; twin does the loop
            let k = rng.usize_in(1, 8);
            let first = rng.below(zoo.len() as u64) as usize;
            let variant = zoo[first].variant();
            let form = *rng.pick(&[
                EncForm::Symbols,
                EncForm::SymbolsReverse,
                EncForm::TrySymbols,
                EncForm::TrySymbolsReverse,
                EncForm::Iid,
                EncForm::IidReverse,
            ]);
            let iid = matches!(form, EncForm::Iid | EncForm::IidReverse);
            let candidates: Vec<usize> = (0..zoo.len())
                .filter(|&i| zoo[i].variant() == variant)
                .collect();
            let mut items_idx: Vec<(usize, usize)> = Vec::new();
            for _ in 0..k {
                let mi = if iid { first } else { *rng.pick(&candidates) };
                items_idx.push((pick_symbol(rng, zoo[mi].cdf()), mi));
            }
            let is_try = matches!(form, EncForm::TrySymbols | EncForm::TrySymbolsReverse);
            let fail_at = if is_try && rng.chance(1, 3) {
                Some(rng.below(k as u64) as usize)
            } else {
                None
            };
            // order in which symbols actually get pushed
            let reverse = matches!(
                form,
                EncForm::SymbolsReverse | EncForm::TrySymbolsReverse | EncForm::IidReverse
            );
            let mut order: Vec<usize> = (0..k).collect();
            if reverse {
                order.reverse();
            }
            if let Some(f) = fail_at {
                let cut = order.iter().position(|&i| i == f).unwrap();
                order.truncate(cut);
            }
            // twin: per-symbol loop
            let mut twin = clone_via.clone_of(run, rng, &coder);
            let mut new_shadow = Vec::new();
            for &i in &order {
                let (sym, mi) = items_idx[i];
                let snap = snapshot(&twin);
                let bl = twin.bulk().len();
                zoo[mi].ans_encode(&mut twin, sym).expect("twin encode");
                flushes += (twin.bulk().len() - bl) as u64;
                let (cum, p) = zoo[mi].cp(sym);
                reference.encode(cum, p, zoo[mi].prec());
                new_shadow.push(Shadow { sym, model: mi, snap });
                run.h(sym as u64 ^ 0xB00 << 40);
            }
            let items: Vec<(usize, &M)> = items_idx.iter().map(|&(s, mi)| (s, &zoo[mi])).collect();
            let outcome = M::ans_encode_many(&mut coder, &items, form, fail_at);
            let expected = if fail_at.is_some() {
                BatchOutcome::ModelError
            } else {
                BatchOutcome::Ok
            };
            if outcome != expected {
                fail!("batch-outcome", "C01/batch-form-diverges", "{form:?} with fail_at={fail_at:?} returned {outcome:?}, expected {expected:?}");
            }
            if coder.state() != twin.state() || coder.bulk() != twin.bulk() {
                fail!("batch-form", "C01/batch-form-diverges", "{form:?} (fail_at={fail_at:?}) left head={:#x}/bulk_len={} but the per-symbol loop gives head={:#x}/bulk_len={}; items={:?}",
                    coder.state().as_u(), coder.bulk().len(), twin.state().as_u(), twin.bulk().len(),
                    items_idx.iter().map(|&(s,mi)| (s, zoo[mi].prec(), zoo[mi].cp(s))).collect::<Vec<_>>());
            }
            shadow.extend(new_shadow);
            run.count("batch_encodes", 1);
            if fail_at.is_some() {
                run.count("batch_encodes_with_model_error", 1);
            }
            if want_log {
                log.push(format!("push_batch({form:?},k={k},fail_at={fail_at:?})"));
            }
            if !check_ref(run, &coder, &reference, true, "batch encode") {
                return;
            }
        } else if op < 78 {
            // ---------------- pop (single or batch form)
            if shadow.is_empty() {
                continue;
            }
            let k = if rng.chance(1, 2) {
                1
            } else {
                rng.usize_in(1, shadow.len().min(8))
            };
            // batch forms need same-variant models; take the maximal same-variant suffix
            let top_variant = zoo[shadow.last().unwrap().model].variant();
            let mut kk = 0;
            while kk < k
                && kk < shadow.len()
                && zoo[shadow[shadow.len() - 1 - kk].model].variant() == top_variant
            {
                kk += 1;
            }
            let (r1, r2, r3) = (rng.usize_in(2, 3), rng.usize_in(1, 3), rng.usize_in(1, 2));
            let mut form = *rng.pick(&[
                DecForm::Loop,
                DecForm::Loop,
                DecForm::Symbols,
                DecForm::Symbols,
                DecForm::TrySymbols,
                DecForm::TrySymbols,
                DecForm::Iid,
                DecForm::Iid,
                DecForm::SymbolsStepBy(r1),
                DecForm::TrySymbolsSkip(r2),
                DecForm::IidNth(r3),
                DecForm::IidCount,
                DecForm::SymbolsLast,
            ]);
            if matches!(form, DecForm::Iid | DecForm::IidNth(_) | DecForm::IidCount) {
                // need identical model for all
                let m0 = shadow.last().unwrap().model;
                let mut j = 0;
                while j < kk && shadow[shadow.len() - 1 - j].model == m0 {
                    j += 1;
                }
                kk = j;
            }
            if kk == 1 && rng.bool() {
                form = DecForm::Loop;
            }
            let models: Vec<&M> = (0..kk).map(|j| &zoo[shadow[shadow.len() - 1 - j].model]).collect();
            let before_len = coder.bulk().len();
            let got = M::ans_decode_many(&mut coder, &models, form);
            refills += (before_len - coder.bulk().len()) as u64;
            for (j, &g) in got.iter().enumerate() {
                let e = shadow.pop().unwrap();
                let m = &zoo[e.model];
                reference.decode(m.prec(), |q| {
                    let sy = m.lookup(q);
                    m.cp(sy)
                });
                if g == SKIPPED {
                    run.count("decodes_skipped_by_iterator_adaptors", 1);
                } else if g != e.sym {
                    fail!("wrong-symbol", "C01/decode-mismatch", "{form:?} pop #{j} returned {g}, expected {} (model P={} cdf={:?})", e.sym, m.prec(), m.cdf());
                }
                let _ = e.snap;
                if j + 1 == got.len() {
                    let now = snapshot(&coder);
                    if now != e.snap {
                        fail!("restore", "C01/restore-mismatch", "after popping back to level {} the exported words differ from those recorded before the push", shadow.len());
                    }
                }
            }
            run.count("decodes", got.len() as u64);
            if want_log {
                log.push(format!("pop({form:?},k={kk})"));
            }
            if !check_ref(run, &coder, &reference, false, "decode") {
                return;
            }
        } else if op < 86 {
            // ---------------- reload through Vec
            let words = coder.into_compressed().unwrap_infallible();
            let exp = reference.compressed();
            if words_u128(&words) != exp {
                fail!("export", "C01/ref-diverges", "into_compressed gave {:?}, reference {:?}", words_u128(&words), exp);
            }
            if words.last().is_some_and(|l| l.as_u() == 0) {
                fail!("trailing-zero", "C01/export-trailing-zero", "into_compressed ends in a zero word: {:?}", words_u128(&words));
            }
            coder = match AnsCoder::from_compressed(words.clone()) {
                Ok(c) => c,
                Err(_) => fail!("import-refused", "C01/from_compressed-refused", "from_compressed refused the coder's own export {:?}", words_u128(&words)),
            };
            reference = RefAns::from_compressed(w, s, &exp).unwrap();
            reimports += 1;
            if want_log {
                log.push("reload(vec)".into());
            }
            if !check_ref(run, &coder, &reference, true, "reload") {
                return;
            }
        } else if op < 92 {
            // ---------------- reload through a Cursor (optionally reversed in place), pop a few
            // symbols there, push some of them back there, convert back to a Vec coder.
            let words = coder.into_compressed().unwrap_infallible();
            let kpop = rng.usize_in(0, shadow.len().min(6));
            let reversed = rng.bool();
            let k1 = if reversed { kpop / 2 } else { 0 };
            let mut cur_coder: AnsCoder<M::W, S, Cursor<M::W, Vec<M::W>>> = if reversed {
                let mut rv = words.clone();
                rv.reverse();
                let mut rc = match AnsCoder::<M::W, S, _>::from_reversed_compressed(rv) {
                    Ok(c) => c,
                    Err(_) => fail!("import-refused", "C01/from_compressed-refused", "from_reversed_compressed refused own export"),
                };
                // pop some on the reversed coder; these stay popped
                for _ in 0..k1 {
                    let e = shadow.pop().unwrap();
                    let m = &zoo[e.model];
                    let g = decode_generic::<M, S, _>(m, &mut rc);
                    reference.decode(m.prec(), |q| m.cp(m.lookup(q)));
                    if g != e.sym {
                        fail!("wrong-symbol", "C01/decode-mismatch", "reversed-cursor pop returned {g}, expected {}", e.sym);
                    }
                }
                run.count("reverse_cursor_pops", k1 as u64);
                rc.into_reversed()
            } else {
                match AnsCoder::from_compressed(Cursor::new_at_write_end(words.clone())) {
                    Ok(c) => c,
                    Err(_) => fail!("import-refused", "C01/from_compressed-refused", "from_compressed(Cursor) refused own export"),
                }
            };
            let kpop2 = kpop - k1;
            let mut popped: Vec<Shadow> = Vec::new();
            for _ in 0..kpop2 {
                let e = shadow.pop().unwrap();
                let m = &zoo[e.model];
                let g = decode_generic::<M, S, _>(m, &mut cur_coder);
                reference.decode(m.prec(), |q| m.cp(m.lookup(q)));
                if g != e.sym {
                    fail!("wrong-symbol", "C01/decode-mismatch", "cursor pop returned {g}, expected {}", e.sym);
                }
                popped.push(e);
            }
            run.count("cursor_pops", kpop2 as u64);
            // push them back on the cursor-backed coder (always fits: it only re-writes words
            // that were read before); same symbols from the same state => same snapshots
            while let Some(e) = popped.pop() {
                let m = &zoo[e.model];
                if m.ans_encode(&mut cur_coder, e.sym).is_err() {
                    fail!("encode-failed", "C01/encode-error", "re-encoding on the Cursor backend failed");
                }
                let (cum, p) = m.cp(e.sym);
                reference.encode(cum, p, m.prec());
                shadow.push(e);
            }
            let (cursor, state) = cur_coder.into_raw_parts();
            let (mut buf, pos) = cursor.into_buf_and_pos();
            buf.truncate(pos);
            coder = AnsCoder::from_raw_parts(buf, state);
            reimports += 1;
            if want_log {
                log.push(format!("reload(cursor,reversed={reversed},pop={kpop})"));
            }
            if !check_ref(run, &coder, &reference, true, "cursor reload") {
                return;
            }
        } else if op < 96 {
            // ---------------- clone / as_decoder / into_decoder: decode everything on a copy
            let kind = rng.below(8);
            let expect: Vec<(usize, usize)> = shadow.iter().rev().map(|e| (e.sym, e.model)).collect();
            let lim = expect.len().min(24);
            match kind {
                0 => {
                    let mut cl = clone_via.clone_of(run, rng, &coder);
                    for &(sym, mi) in &expect[..lim] {
                        let g = zoo[mi].ans_decode(&mut cl).unwrap_infallible();
                        if g != sym {
                            fail!("wrong-symbol", "C01/decode-mismatch", "clone pop returned {g}, expected {sym}");
                        }
                    }
                }
                1 => {
                    let mut d = coder.as_decoder();
                    for &(sym, mi) in &expect[..lim] {
                        let g = decode_generic::<M, S, _>(&zoo[mi], &mut d);
                        if g != sym {
                            fail!("wrong-symbol", "C01/decode-mismatch", "as_decoder pop returned {g}, expected {sym}");
                        }
                    }
                }
                2 => {
                    let mut d = coder.clone().into_decoder();
                    for &(sym, mi) in &expect[..lim] {
                        let g = decode_generic::<M, S, _>(&zoo[mi], &mut d);
                        if g != sym {
                            fail!("wrong-symbol", "C01/decode-mismatch", "into_decoder pop returned {g}, expected {sym}");
                        }
                    }
                }
                3 => {
                    // trait forms of the same conversions
                    let mut d = <AnsCoder<M::W, S, Vec<M::W>> as constriction::stream::IntoDecoder<1>>::into_decoder(coder.clone());
                    let mut d2 = <AnsCoder<M::W, S, Vec<M::W>> as constriction::stream::AsDecoder<'_, 1>>::as_decoder(&coder);
                    let mut d3: AnsCoder<M::W, S, Cursor<M::W, &[M::W]>> = (&coder).into();
                    for &(sym, mi) in &expect[..lim] {
                        let g = decode_generic::<M, S, _>(&zoo[mi], &mut d);
                        let g2 = decode_generic::<M, S, _>(&zoo[mi], &mut d2);
                        let g3 = decode_generic::<M, S, _>(&zoo[mi], &mut d3);
                        if g != sym || g2 != sym || g3 != sym {
                            fail!("wrong-symbol", "C01/decode-mismatch", "IntoDecoder/AsDecoder/From<&AnsCoder> pops returned {g}/{g2}/{g3}, expected {sym}");
                        }
                    }
                }
                4 => {
                    // borrowed slice of the exported words
                    let words: Vec<M::W> = Vec::from(coder.clone());
                    if words_u128(&words) != reference.compressed() {
                        fail!("export", "C01/ref-diverges", "Vec::from(coder) gave {:?}", words_u128(&words));
                    }
                    let mut d = match AnsCoder::<M::W, S, _>::from_compressed_slice(&words) {
                        Ok(d) => d,
                        Err(()) => fail!("import-refused", "C01/from_compressed-refused", "from_compressed_slice refused own export"),
                    };
                    for &(sym, mi) in &expect[..lim] {
                        let g = decode_generic::<M, S, _>(&zoo[mi], &mut d);
                        if g != sym {
                            fail!("wrong-symbol", "C01/decode-mismatch", "from_compressed_slice pop returned {g}, expected {sym}");
                        }
                    }
                }
                5 => {
                    // words streamed in reverse through the fallible iterator adapter
                    let words: Vec<M::W> = coder.clone().into_compressed().unwrap_infallible();
                    let it = words.iter().rev().map(|w| Ok::<M::W, ()>(*w));
                    let mut d = match AnsCoder::<M::W, S, _>::from_reversed_compressed_iter(it) {
                        Ok(d) => d,
                        Err(_) => fail!("import-refused", "C01/from_compressed-refused", "from_reversed_compressed_iter refused own export"),
                    };
                    for &(sym, mi) in &expect[..lim] {
                        let g = zoo[mi].ans_decode(&mut d).expect("iterator backend");
                        if g != sym {
                            fail!("wrong-symbol", "C01/decode-mismatch", "from_reversed_compressed_iter pop returned {g}, expected {sym}");
                        }
                    }
                }
                6 => {
                    // Cursor -> Reverse<Cursor> in place, then decode
                    let words: Vec<M::W> = coder.clone().into_compressed().unwrap_infallible();
                    let c = match AnsCoder::<M::W, S, _>::from_compressed(Cursor::new_at_write_end(words)) {
                        Ok(c) => c,
                        Err(_) => fail!("import-refused", "C01/from_compressed-refused", "from_compressed(Cursor) refused own export"),
                    };
                    let mut d = c.into_reversed();
                    for &(sym, mi) in &expect[..lim] {
                        let g = decode_generic::<M, S, _>(&zoo[mi], &mut d);
                        if g != sym {
                            fail!("wrong-symbol", "C01/decode-mismatch", "Cursor coder .into_reversed() pop returned {g}, expected {sym}");
                        }
                    }
                }
                _ => {
                    if constriction::stream::Encode::<1>::maybe_full(&coder) {
                        fail!("maybe_full", "C01/maybe_full", "Vec-backed coder claims maybe_full()");
                    }
                    let mut d = coder.clone().into_seekable_decoder();
                    for &(sym, mi) in &expect[..lim] {
                        let g = decode_generic::<M, S, _>(&zoo[mi], &mut d);
                        if g != sym {
                            fail!("wrong-symbol", "C01/decode-mismatch", "into_seekable_decoder pop returned {g}, expected {sym}");
                        }
                    }
                }
            }
            run.count("copy_decodes", lim as u64);
            if want_log {
                log.push(format!("copy_decode(kind={kind},n={lim})"));
            }
        } else {
            // ---------------- views: get_compressed / iter_compressed must equal the reference
            let exp = reference.compressed();
            let it: Vec<u128> = coder.iter_compressed().map(|x| x.as_u()).collect();
            if it != exp {
                fail!("view", "C01/ref-diverges", "iter_compressed {:?} != reference {:?}", it, exp);
            }
            {
                let g = coder.get_compressed().unwrap_infallible();
                if words_u128(&g) != exp {
                    fail!("view", "C01/ref-diverges", "get_compressed {:?} != reference {:?}", words_u128(&g), exp);
                }
            }
            if !check_ref(run, &coder, &reference, true, "get_compressed drop") {
                return;
            }
        }
    }

    // ---- final: pop everything, the exported words must equal the initial words
    while let Some(e) = shadow.pop() {
        let bl = coder.bulk().len();
        let g = zoo[e.model].ans_decode(&mut coder).unwrap_infallible();
        refills += (bl - coder.bulk().len()) as u64;
        if g != e.sym {
            fail!("wrong-symbol", "C01/decode-mismatch", "final pop returned {g}, expected {} (P={})", e.sym, zoo[e.model].prec());
        }
        if snapshot(&coder) != e.snap {
            fail!("restore", "C01/restore-mismatch", "final unwinding: level {} differs from the snapshot taken before the push", shadow.len());
        }
    }
    let fin = words_u128(&coder.clone().into_compressed().unwrap_infallible());
    if fin != initial_export {
        fail!("restore", "C01/restore-mismatch", "after popping every pushed symbol the export is {:?}, initially {:?}", fin, initial_export);
    }
    if coder.is_empty() != fin.is_empty() {
        fail!("is_empty", "C01/is_empty", "is_empty()={} but export={:?}", coder.is_empty(), fin);
    }
    run.count("flushes", flushes);
    run.count("refills", refills);
    run.count("reimports", reimports);
    run.count("steered_pushes", steered);
    run.count("ops", n_ops as u64);
    run.count(
        match (w, s) {
            (8, 16) => "row_u8_u16",
            (8, 32) => "row_u8_u32",
            (8, 64) => "row_u8_u64",
            (16, 32) => "row_u16_u32",
            (16, 64) => "row_u16_u64",
            (32, 64) => "row_u32_u64",
            (32, 128) => "row_u32_u128",
            (64, 128) => "row_u64_u128",
            _ => "row_other",
        },
        1,
    );
    if (flushes > 0 && refills > 0) || reimports > 0 {
        run.nontrivial();
    }
    run.describe(|| {
        format!(
            "W={} S={} init={:?} ops=[{}]",
            <M::W as Num>::NAME,
            S::NAME,
            initial_export,
            log.join(",")
        )
    });
}

/// decode on any backend that reads with stack semantics
pub fn decode_generic<M: ModelSet, S, B>(m: &M, c: &mut AnsCoder<M::W, S, B>) -> usize
where
    M::W: Into<S>,
    S: BitArray + AsPrimitive<M::W>,
    B: ReadWords<M::W, Stack>,
{
    m.ans_decode(c).expect("ANS decode failed on generic backend")
}

pub fn case(run: &mut Run, rng: &mut Rng) {
    match rng.below(if run.small { 4 } else { 8 }) {
        0 => case_row::<ModelU8, u16>(run, rng),
        1 => case_row::<ModelU8, u32>(run, rng),
        2 => case_row::<ModelU16, u32>(run, rng),
        3 => case_row::<ModelU32, u64>(run, rng),
        4 => case_row::<ModelU8, u64>(run, rng),
        5 => case_row::<ModelU16, u64>(run, rng),
        6 => case_row::<ModelU64, u128>(run, rng),
        _ => case_row::<ModelU32, u128>(run, rng),
    }
}

// ==========================================================================================
// Dense single-step sweep for (u8,u16), thorough tier: every state x every legal (cum,p) for
// small precisions, sampled pairs for P = 7, 8. encode-then-decode must be the identity on
// (bulk, state) and must agree with the reference step.

pub fn sweep(run: &mut Run) {
    if !run.thorough() || run.small {
        return;
    }
    use constriction::stream::model::{DecoderModel, EncoderModel};
    use constriction::stream::Encode;
    let shard = run.shard;
    let nshards = run.nshards;
    let mut steps = 0u64;
    let mut rng = Rng::new(run.seed ^ 0x5EE9 ^ shard);

    fn one<const P: usize>(run: &mut Run, state: u16, bulk_word: Option<u8>, cum: u128, p: u128) -> bool {
        // three-symbol model containing the (cum,p) symbol
        let mut cdf = vec![0u128];
        if cum > 0 {
            cdf.push(cum);
        }
        let target = cdf.len() - 1;
        if cum + p < pow2(P as u32) {
            cdf.push(cum + p);
        }
        cdf.push(pow2(P as u32));
        if cdf.len() < 3 {
            return true;
        }
        let m = TableModel::<u8, P>::new(cdf);
        debug_assert_eq!(m.left_cumulative_and_probability(target).unwrap().0 as u128, cum);
        let bulk: Vec<u8> = bulk_word.into_iter().collect();
        let mut c = AnsCoder::<u8, u16, Vec<u8>>::from_raw_parts(bulk.clone(), state);
        let mut r = RefAns { w: 8, s: 16, bulk: words_u128(&bulk), head: state as u128 };
        c.encode_symbol(target, &m).unwrap();
        r.encode(cum, p, P as u32);
        if c.state() as u128 != r.head || words_u128(c.bulk()) != r.bulk {
            run.violation("sweep-ref", "C01/ref-diverges", format!("sweep P={P} state={state:#x} bulk={bulk:?} cum={cum} p={p}: library ({:#x},{:?}) reference ({:#x},{:?})", c.state(), c.bulk(), r.head, r.bulk));
            return false;
        }
        let g = c.decode_symbol(&m).unwrap();
        let _ = m.quantile_function(0);
        if g != target || c.state() != state || c.bulk() != &bulk {
            run.violation("sweep-roundtrip", "C01/restore-mismatch", format!("sweep P={P} state={state:#x} bulk={bulk:?} cum={cum} p={p}: decode gave sym {g} (want {target}), state {:#x}, bulk {:?}", c.state(), c.bulk()));
            return false;
        }
        true
    }

    // states: below the threshold 2^8 with empty bulk; at/above with a one-word bulk
    let mut state = shard as u32;
    while state < 1 << 16 {
        let st = state as u16;
        if state % 256 == shard as u32 % 256 {
            run.heartbeat();
        }
        let bulk_word = if st >= 1 << 8 { Some((st ^ 0x5A) as u8) } else { None };
        // P = 1: single legal split (cum,p) in {(0,1),(1,1)}
        for (cum, p) in [(0u128, 1u128), (1, 1)] {
            if !one::<1>(run, st, bulk_word, cum, p) {
                return;
            }
            steps += 1;
        }
        // P = 3: all pairs
        for p in 1..8u128 {
            for cum in 0..=(8 - p) {
                if !one::<3>(run, st, bulk_word, cum, p) {
                    return;
                }
                steps += 1;
            }
        }
        // P = 7 and 8: boundary-biased sample
        for _ in 0..24 {
            let p = 1 + (rng.edgy(7) % 127);
            let cum = rng.below128(128 - p + 1);
            if !one::<7>(run, st, bulk_word, cum, p) {
                return;
            }
            let p8 = 1 + (rng.edgy(8) % 255);
            let cum8 = rng.below128(256 - p8 + 1);
            if !one::<8>(run, st, bulk_word, cum8, p8) {
                return;
            }
            // threshold-exact probabilities
            let t = (st as u128) >> 8;
            if t >= 1 && t < 256 {
                let cum = rng.below128(256 - t + 1);
                if !one::<8>(run, st, bulk_word, cum, t) {
                    return;
                }
                steps += 1;
            }
            steps += 2;
        }
        state += nshards as u32;
    }
    run.count("sweep_steps", steps);
}
