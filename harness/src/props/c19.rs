//! C19 — model constructors reject invalid input instead of building a broken model.
//!
//! Oracle: every `Ok(model)` must pass the C03 validity checker; a clean `Err` or an unwinding
//! panic is acceptable; an abort is caught by the driver. Additionally: a lone symbol with the
//! whole mass is never accepted, and valid `infer_last_probability` input is accepted at every
//! precision.

use crate::modelcheck::*;
use crate::num::{mask, pow2, Num};
use crate::prng::Rng;
use crate::props::c03::*;
use crate::report::Run;
use constriction::stream::model::*;
use num_traits::AsPrimitive;
use std::panic::{catch_unwind, AssertUnwindSafe};

/// Float tables of every class, valid and invalid.
fn gen_any_float_table<F: FloatT>(rng: &mut Rng, max_len: usize) -> (Vec<F>, &'static str) {
    let class = rng.below(14);
    let len = match rng.below(6) {
        0 => 0,
        1 => 1,
        2 => 2,
        _ => rng.usize_in(0, max_len),
    };
    let big = if F::MANT == 24 { 3e38 } else { 1e308 };
    let tiny = if F::MANT == 24 { 1e-45 } else { 5e-324 };
    let mut v: Vec<f64> = (0..len).map(|_| rng.f64()).collect();
    let name = match class {
        0 => {
            for x in v.iter_mut() {
                if rng.chance(1, 3) {
                    *x = -*x;
                }
            }
            "negative-entries"
        }
        1 => {
            if len > 0 {
                let k = rng.below(len as u64) as usize;
                v[k] = -1e-4 * rng.f64();
            }
            "one-small-negative"
        }
        2 => {
            for x in v.iter_mut() {
                if rng.chance(1, 3) {
                    *x = -0.0;
                }
            }
            "negative-zero"
        }
        3 => {
            if len > 0 {
                let k = rng.below(len as u64) as usize;
                v[k] = f64::NAN;
            }
            "nan"
        }
        4 => {
            if len > 0 {
                let k = rng.below(len as u64) as usize;
                v[k] = if rng.bool() { f64::INFINITY } else { f64::NEG_INFINITY };
            }
            "infinite"
        }
        5 => {
            for x in v.iter_mut() {
                *x = 0.0;
            }
            "all-zero"
        }
        6 => {
            for x in v.iter_mut() {
                *x = tiny * (1.0 + rng.below(5) as f64);
            }
            "subnormal-only"
        }
        7 => {
            for x in v.iter_mut() {
                *x = big * (0.5 + 0.5 * rng.f64());
            }
            "sum-overflows"
        }
        8 => {
            // 2.0, -1.0, 1.0 shaped: negative in the middle with positive total
            for (i, x) in v.iter_mut().enumerate() {
                *x = if i % 2 == 1 { -0.5 * rng.f64() } else { 1.0 + rng.f64() };
            }
            "alternating-sign-positive-total"
        }
        _ => "valid",
    };
    (v.into_iter().map(F::from64).collect(), name)
}

fn gen_normalization<F: FloatT>(rng: &mut Rng, v: &[F]) -> (Option<F>, &'static str) {
    let sum: F = v.iter().copied().sum();
    match rng.below(14) {
        0 => (Some(F::from64(0.0)), "zero"),
        1 => (Some(F::from64(-1.0)), "negative"),
        2 => (Some(F::from64(f64::NAN)), "nan"),
        3 => (Some(F::from64(f64::INFINITY)), "inf"),
        4 => (Some(sum * F::from64(1e-6)), "much-too-small"),
        5 => (Some(sum * F::from64(0.999)), "slightly-too-small"),
        6 => (Some(sum * F::from64(1e6)), "much-too-large"),
        7 => (Some(sum), "exact"),
        8 => (Some(F::from64(1.0)), "finite-constant-1"),
        9 => (Some(F::from64(0.37 + 10.0 * rng.f64())), "finite-constant"),
        _ => (None, "none"),
    }
}

macro_rules! guarded {
    ($run:expr, $what:expr, $desc:expr, $body:expr) => {{
        match catch_unwind(AssertUnwindSafe(|| $body)) {
            Ok(x) => Some(x),
            Err(_) => {
                $run.count("clean_panics", 1);
                let msg = crate::last_panic();
                if crate::is_ub_check_panic(&msg) {
                    $run.violation("ub-panic", &format!("C19/{}", crate::panic_sig(&msg)), format!("{} {} :: {}", $what, $desc, msg));
                } else if crate::is_ub_or_overflow_panic(&msg) {
                    $run.count("overflow_panics_on_invalid_input", 1);
                }
                None
            }
        }
    }};
}

fn report(run: &mut Run, what: &str, desc: &str, b: Bad) {
    run.violation("broken-model-accepted", &format!("C19/{}/{}", sanitize(what), b.sig), format!("{what} accepted {desc} but the model is invalid: {}", b.detail));
}

fn sanitize(s: &str) -> String {
    s.chars().map(|c| if c.is_ascii_alphanumeric() || c == '_' { c } else { '_' }).collect()
}

fn validate_encdec<M, const P: usize>(run: &mut Run, rng: &mut Rng, m: &M, n: usize, what: &str, desc: &str) -> bool
where
    M: EncoderModel<P, Symbol = usize> + DecoderModel<P>,
    M::Probability: Num,
{
    let r = (|| -> Result<(), Bad> {
        let t = table_via_encoder::<_, P>(m, 0..n)?;
        check_outside::<_, P>(m, [n, n + 1, usize::MAX].into_iter())?;
        check_quantiles::<_, P>(m, &t, rng, 4096, 200)?;
        Ok(())
    })();
    run.count("accepted_models_validated", 1);
    match r {
        Ok(()) => true,
        Err(b) => {
            report(run, what, desc, b);
            false
        }
    }
}

fn float_case<F, Pr, const P: usize>(run: &mut Run, rng: &mut Rng)
where
    F: FloatT + AsPrimitive<Pr>,
    Pr: Num + AsPrimitive<usize> + AsPrimitive<F>,
    usize: AsPrimitive<Pr> + AsPrimitive<F>,
{
    run.count("float_constructor_cases", 1);
    let total = pow2(P as u32);
    let max_len = if run.small { 8 } else { (total as usize).saturating_add(2).min(40) };
    let (v, class) = gen_any_float_table::<F>(rng, max_len);
    let (norm, nclass) = gen_normalization(rng, &v);
    for x in &v {
        let y: f64 = (*x).into();
        run.h(y.to_bits());
    }
    run.h(P as u64 ^ hash_str(class) ^ hash_str(nclass).rotate_left(7));
    if class != "valid" || !matches!(nclass, "none" | "exact") {
        run.nontrivial();
    }
    run.count(match class {
        "valid" => "class_valid",
        "nan" => "class_nan",
        "negative-entries" | "one-small-negative" | "alternating-sign-positive-total" => "class_negative",
        "infinite" | "sum-overflows" => "class_infinite_or_overflow",
        _ => "class_zero_or_subnormal",
    }, 1);
    let desc = format!("<{},{},{}> [{class}] table {} normalization [{nclass}] {:?}", Pr::NAME, F::FNAME, P, table_desc(&v), norm);
    run.note(|| desc.clone());
    let n = v.len();
    // eager fast
    if let Some(Ok(m)) = guarded!(run, "ContiguousCategorical::fast", desc, ContiguousCategoricalEntropyModel::<Pr, Vec<Pr>, P>::from_floating_point_probabilities_fast(&v, norm)) {
        run.count("accepted", 1);
        let ok = guarded!(run, "ContiguousCategorical::fast (use)", desc, validate_encdec::<_, P>(run, rng, &m, n, "ContiguousCategorical::fast", &desc));
        if ok != Some(true) {
            return;
        }
    } else {
        run.count("rejected", 1);
    }
    // lazy fast
    if let Some(Ok(m)) = guarded!(run, "LazyContiguousCategorical::fast", desc, LazyContiguousCategoricalEntropyModel::<Pr, F, &[F], P>::from_floating_point_probabilities_fast(&v[..], norm)) {
        run.count("accepted", 1);
        let ok = guarded!(run, "LazyContiguousCategorical::fast (use)", desc, validate_encdec::<_, P>(run, rng, &m, n, "LazyContiguousCategorical::fast", &desc));
        if ok != Some(true) {
            return;
        }
    } else {
        run.count("rejected", 1);
    }
    run.describe(|| desc);
}

fn float_case_small<F, Pr, const P: usize>(run: &mut Run, rng: &mut Rng)
where
    F: FloatT + AsPrimitive<Pr>,
    Pr: Num + AsPrimitive<usize> + AsPrimitive<F> + Into<f64> + Into<usize>,
    usize: AsPrimitive<Pr> + AsPrimitive<F>,
    f64: AsPrimitive<Pr>,
{
    run.count("float_constructor_cases_small", 1);
    let total = pow2(P as u32);
    let max_len = if run.small { 8 } else { (total as usize).saturating_add(2).min(24) };
    let (v, class) = gen_any_float_table::<F>(rng, max_len);
    let (norm, nclass) = gen_normalization(rng, &v);
    for x in &v {
        let y: f64 = (*x).into();
        run.h(y.to_bits());
    }
    let n = v.len();
    // symbol lists: matching, shorter, longer, with duplicates, empty, single
    let sym_class = rng.below(8);
    let mut labels: Vec<i32> = (0..n as i32).map(|i| 10 * i - 7).collect();
    let sym_name = match sym_class {
        0 => {
            labels.truncate(n / 2);
            "fewer-symbols"
        }
        1 => {
            labels.truncate(1);
            "one-symbol"
        }
        2 => {
            labels.clear();
            "no-symbols"
        }
        3 => {
            labels.extend([9999, 10000, 10001]);
            "more-symbols"
        }
        4 => {
            if n >= 2 {
                labels[n - 1] = labels[0];
            }
            "duplicate-symbols"
        }
        _ => "matching",
    };
    run.h(P as u64 ^ hash_str(class) ^ hash_str(nclass).rotate_left(7) ^ hash_str(sym_name).rotate_left(13));
    run.nontrivial();
    run.count(match sym_name {
        "matching" => "symbols_matching",
        "duplicate-symbols" => "symbols_duplicate",
        _ => "symbols_count_mismatch",
    }, 1);
    let desc = format!("<{},{},{}> [{class}] table {} normalization [{nclass}] {:?} symbols [{sym_name}] {:?}", Pr::NAME, F::FNAME, P, table_desc(&v), norm, labels);
    run.note(|| desc.clone());
    let mut distinct = labels.clone();
    distinct.sort_unstable();
    distinct.dedup();

    macro_rules! dec_model {
        ($what:expr, $ctor:expr) => {{
            if let Some(Ok(m)) = guarded!(run, $what, desc, $ctor) {
                run.count("accepted", 1);
                let r = guarded!(run, concat!($what, " (use)"), desc, table_via_decoder::<_, P>(&m, n + labels.len() + 8));
                run.count("accepted_models_validated", 1);
                match r {
                    Some(Ok(t)) => {
                        // every decoded symbol must come from the supplied list
                        if let Some(bad) = t.rows.iter().find(|r| !labels.contains(&r.0)) {
                            run.violation("broken-model-accepted", &format!("C19/{}/foreign-symbol", sanitize($what)), format!("{} accepted {desc} and decodes symbol {} that was never supplied", $what, bad.0));
                            return;
                        }
                    }
                    Some(Err(b)) => {
                        report(run, $what, &desc, b);
                        return;
                    }
                    None => return,
                }
            } else {
                run.count("rejected", 1);
            }
        }};
    }
    macro_rules! enc_model {
        ($what:expr, $ctor:expr) => {{
            if let Some(Ok(m)) = guarded!(run, $what, desc, $ctor) {
                run.count("accepted", 1);
                run.count("accepted_models_validated", 1);
                // an accepted encoder-only model must be valid over exactly its distinct symbols
                if m.support_size() != distinct.len().min(m.support_size()) {
                    // (cannot exceed the number of distinct symbols supplied)
                }
                let order: Vec<i32> = {
                    // recover the order by cumulative
                    let mut o: Vec<(u128, i32)> = distinct
                        .iter()
                        .filter_map(|s| m.left_cumulative_and_probability(*s).map(|(c, _)| (c.as_u(), *s)))
                        .collect();
                    o.sort_unstable();
                    o.into_iter().map(|x| x.1).collect()
                };
                if order.len() != m.support_size() {
                    run.violation("broken-model-accepted", &format!("C19/{}/support-mismatch", sanitize($what)), format!("{} accepted {desc}: support_size()={} but only {} of the supplied symbols are encodable", $what, m.support_size(), order.len()));
                    return;
                }
                if let Err(b) = table_via_encoder::<_, P>(&m, order.into_iter()) {
                    report(run, $what, &desc, b);
                    return;
                }
            } else {
                run.count("rejected", 1);
            }
        }};
    }

    // contiguous perfect / lookup
    if let Some(Ok(m)) = guarded!(run, "ContiguousCategorical::perfect", desc, ContiguousCategoricalEntropyModel::<Pr, Vec<Pr>, P>::from_floating_point_probabilities_perfect(&v)) {
        run.count("accepted", 1);
        let ok = guarded!(run, "ContiguousCategorical::perfect (use)", desc, validate_encdec::<_, P>(run, rng, &m, n, "ContiguousCategorical::perfect", &desc));
        if ok != Some(true) {
            return;
        }
    } else {
        run.count("rejected", 1);
    }
    // for the index-labelled lookup models every decoded symbol is an index < n
    let labels_saved = labels.clone();
    let labels: Vec<usize> = (0..n).collect();
    dec_model_usize::<_, P>(run, "ContiguousLookup::fast", &desc, n, &labels, || ContiguousLookupDecoderModel::<Pr, Vec<Pr>, Box<[Pr]>, P>::from_floating_point_probabilities_fast(&v, norm));
    dec_model_usize::<_, P>(run, "ContiguousLookup::perfect", &desc, n, &labels, || ContiguousLookupDecoderModel::<Pr, Vec<Pr>, Box<[Pr]>, P>::from_floating_point_probabilities_perfect(&v));
    let labels = labels_saved;

    dec_model!("NonContiguousDecoder::fast", NonContiguousCategoricalDecoderModel::<i32, Pr, Vec<(Pr, i32)>, P>::from_symbols_and_floating_point_probabilities_fast(labels.iter().copied(), &v, norm));
    dec_model!("NonContiguousDecoder::perfect", NonContiguousCategoricalDecoderModel::<i32, Pr, Vec<(Pr, i32)>, P>::from_symbols_and_floating_point_probabilities_perfect(labels.iter().copied(), &v));
    dec_model!("NonContiguousLookup::fast", NonContiguousLookupDecoderModel::<i32, Pr, Vec<(Pr, i32)>, Box<[Pr]>, P>::from_symbols_and_floating_point_probabilities_fast(labels.iter().copied(), &v, norm));
    dec_model!("NonContiguousLookup::perfect", NonContiguousLookupDecoderModel::<i32, Pr, Vec<(Pr, i32)>, Box<[Pr]>, P>::from_symbols_and_floating_point_probabilities_perfect(labels.iter().copied(), &v));
    enc_model!("NonContiguousEncoder::fast", NonContiguousCategoricalEncoderModel::<i32, Pr, P>::from_symbols_and_floating_point_probabilities_fast(labels.iter().copied(), &v, norm));
    enc_model!("NonContiguousEncoder::perfect", NonContiguousCategoricalEncoderModel::<i32, Pr, P>::from_symbols_and_floating_point_probabilities_perfect(labels.iter().copied(), &v));
    run.describe(|| desc);
}

fn dec_model_usize<M, const P: usize>(run: &mut Run, what: &str, desc: &str, n: usize, labels: &[usize], ctor: impl FnOnce() -> Result<M, ()>)
where
    M: DecoderModel<P, Symbol = usize>,
    M::Probability: Num,
{
    let built = catch_unwind(AssertUnwindSafe(ctor));
    match built {
        Ok(Ok(m)) => {
            run.count("accepted", 1);
            run.count("accepted_models_validated", 1);
            match catch_unwind(AssertUnwindSafe(|| table_via_decoder::<_, P>(&m, n + 8))) {
                Ok(Ok(t)) => {
                    if let Some(bad) = t.rows.iter().find(|r| !labels.contains(&r.0)) {
                        run.violation("broken-model-accepted", &format!("C19/{}/foreign-symbol", sanitize(what)), format!("{what} accepted {desc} and decodes symbol {} outside 0..{n}", bad.0));
                    }
                }
                Ok(Err(b)) => report(run, what, desc, b),
                Err(_) => {
                    run.count("clean_panics", 1);
                    let msg = crate::last_panic();
                    run.violation("broken-model-accepted", &format!("C19/{}/panics-on-use", sanitize(what)), format!("{what} accepted {desc} but using the model panics: {msg}"));
                }
            }
        }
        Ok(Err(())) => run.count("rejected", 1),
        Err(_) => {
            run.count("clean_panics", 1);
            let msg = crate::last_panic();
            if crate::is_ub_check_panic(&msg) {
                run.violation("ub-panic", &format!("C19/{}", crate::panic_sig(&msg)), format!("{what} {desc} :: {msg}"));
            } else if crate::is_ub_or_overflow_panic(&msg) {
                run.count("overflow_panics_on_invalid_input", 1);
            }
        }
    }
}

// ------------------------------------------------------------------------------------------
// fixed-point tables

fn gen_any_fixed(rng: &mut Rng, prec: u32, bits: u32, max_n: usize) -> (Vec<u128>, bool, &'static str, bool) {
    let total = pow2(prec);
    let tmask = mask(bits);
    let infer = rng.bool();
    let valid = gen_fixed_probs(rng, prec, max_n);
    let class = rng.below(12);
    let (mut v, name, is_valid): (Vec<u128>, &'static str, bool) = match class {
        0 => {
            let mut v = valid.clone();
            let k = rng.below(v.len() as u64) as usize;
            v[k] = 0;
            (v, "contains-zero", false)
        }
        1 => {
            let mut v = valid.clone();
            let k = rng.below(v.len() as u64) as usize;
            v[k] = (total + rng.below128(4)) & tmask;
            (v, "entry-at-least-one", false)
        }
        2 => {
            let mut v = valid.clone();
            v[0] += 1;
            (v, "total-plus-one", false)
        }
        3 => {
            let mut v = valid.clone();
            if let Some(k) = v.iter().position(|&x| x > 1) {
                v[k] -= 1;
                (v, "total-minus-one", false)
            } else {
                (v, "valid", true)
            }
        }
        4 => {
            let mut v = valid.clone();
            v.extend(valid.iter().copied());
            (v, "two-laps", false)
        }
        5 => (vec![total & tmask], "single-entry-whole-mass", false),
        6 => (vec![], "empty", false),
        7 => (vec![0], "single-zero", false),
        8 => {
            // sum reaches exactly 2^P before the end (exact lap), then more
            let mut v = valid.clone();
            v.push(1);
            (v, "lap-then-more", false)
        }
        _ => (valid.clone(), "valid", true),
    };
    let mut valid_flag = is_valid;
    if infer && name == "valid" {
        // drop the last entry: the constructor has to infer it
        v.pop();
        valid_flag = !v.is_empty();
        if v.is_empty() {
            return (v, infer, "infer-from-empty", false);
        }
    }
    (v, infer, name, valid_flag)
}

fn fixed_case<Pr, const P: usize>(run: &mut Run, rng: &mut Rng)
where
    Pr: Num,
{
    run.count("fixed_constructor_cases", 1);
    let (v, infer, class, valid) = gen_any_fixed(rng, P as u32, Pr::NBITS, if run.small { 6 } else { 40 });
    for x in &v {
        run.h128(*x);
    }
    run.h(P as u64 ^ hash_str(class) ^ (infer as u64) << 50);
    if !valid || P as u32 == Pr::NBITS {
        run.nontrivial();
    }
    run.count(if valid { "fixed_class_valid" } else { "fixed_class_invalid" }, 1);
    let probs: Vec<Pr> = v.iter().map(|&x| Pr::of(x)).collect();
    let n = v.len() + infer as usize;
    let desc = format!("<{},{}> [{class}] fixed-point probabilities {:?} infer_last={infer}", Pr::NAME, P, v);
    run.note(|| desc.clone());
    match guarded!(run, "from_nonzero_fixed_point_probabilities", desc, ContiguousCategoricalEntropyModel::<Pr, Vec<Pr>, P>::from_nonzero_fixed_point_probabilities(probs.iter(), infer)) {
        Some(Ok(m)) => {
            run.count("accepted", 1);
            let nn = m.support_size();
            let ok = guarded!(run, "from_nonzero_fixed_point_probabilities (use)", desc, validate_encdec::<_, P>(run, rng, &m, nn, "Contiguous::from_nonzero_fixed_point_probabilities", &desc));
            if ok != Some(true) {
                return;
            }
            if valid && nn != n {
                run.violation("broken-model-accepted", "C19/fixed-point/support-size", format!("{desc}: model has {nn} symbols, expected {n}"));
                return;
            }
        }
        Some(Err(())) => {
            run.count("rejected", 1);
            if valid {
                let sig = if infer && P as u32 == Pr::NBITS { "C19/infer_last-rejected-at-full-precision" } else { "C19/valid-fixed-point-table-rejected" };
                if infer {
                    run.violation("valid-input-rejected", sig, format!("{desc} was rejected although the {} given probabilities sum to less than 2^P (inferring the last probability must work at every precision)", v.len()));
                    return;
                } else {
                    run.count("valid_fixed_table_rejected", 1);
                }
            }
        }
        None => {}
    }
    // the same table through the other fixed-point constructors
    let labels: Vec<i32> = (0..n as i32).map(|i| 3 * i + 1).collect();
    if let Some(Ok(m)) = guarded!(run, "NonContiguousDecoder::fixed", desc, NonContiguousCategoricalDecoderModel::<i32, Pr, Vec<(Pr, i32)>, P>::from_symbols_and_nonzero_fixed_point_probabilities(labels.iter().copied(), probs.iter(), infer)) {
        run.count("accepted", 1);
        run.count("accepted_models_validated", 1);
        if let Some(Err(b)) = guarded!(run, "NonContiguousDecoder::fixed (use)", desc, table_via_decoder::<_, P>(&m, n + 8)) {
            report(run, "NonContiguousDecoder::from_symbols_and_nonzero_fixed_point_probabilities", &desc, b);
            return;
        }
    }
    if let Some(Ok(m)) = guarded!(run, "NonContiguousEncoder::fixed", desc, NonContiguousCategoricalEncoderModel::<i32, Pr, P>::from_symbols_and_nonzero_fixed_point_probabilities(labels.iter().copied(), probs.iter(), infer)) {
        run.count("accepted", 1);
        run.count("accepted_models_validated", 1);
        if let Err(b) = table_via_encoder::<_, P>(&m, labels.iter().copied()) {
            report(run, "NonContiguousEncoder::from_symbols_and_nonzero_fixed_point_probabilities", &desc, b);
            return;
        }
    }
    run.describe(|| desc);
}

fn fixed_case_lookup<Pr, const P: usize>(run: &mut Run, rng: &mut Rng)
where
    Pr: Num + Into<usize>,
    usize: AsPrimitive<Pr>,
{
    run.count("fixed_constructor_cases_lookup", 1);
    let (v, infer, class, _valid) = gen_any_fixed(rng, P as u32, Pr::NBITS, if run.small { 6 } else { 40 });
    for x in &v {
        run.h128(*x);
    }
    run.h(P as u64 ^ hash_str(class) ^ (infer as u64) << 50 ^ 0x100 << 40);
    run.nontrivial();
    let probs: Vec<Pr> = v.iter().map(|&x| Pr::of(x)).collect();
    let n = v.len() + infer as usize;
    let desc = format!("<{},{}> [{class}] fixed-point probabilities {:?} infer_last={infer}", Pr::NAME, P, v);
    run.note(|| desc.clone());
    let labels: Vec<usize> = (0..n + 1).collect();
    dec_model_usize::<_, P>(run, "ContiguousLookup::from_nonzero_fixed_point_probabilities", &desc, n, &labels, || {
        ContiguousLookupDecoderModel::<Pr, Vec<Pr>, Box<[Pr]>, P>::from_nonzero_fixed_point_probabilities(probs.iter(), infer)
    });
    let il: Vec<i32> = (0..n as i32).collect();
    if let Some(Ok(m)) = guarded!(run, "NonContiguousLookup::fixed", desc, NonContiguousLookupDecoderModel::<i32, Pr, Vec<(Pr, i32)>, Box<[Pr]>, P>::from_symbols_and_nonzero_fixed_point_probabilities(il.iter().copied(), probs.iter(), infer)) {
        run.count("accepted", 1);
        run.count("accepted_models_validated", 1);
        if let Some(Err(b)) = guarded!(run, "NonContiguousLookup::fixed (use)", desc, table_via_decoder::<_, P>(&m, n + 8)) {
            report(run, "NonContiguousLookup::from_symbols_and_nonzero_fixed_point_probabilities", &desc, b);
            return;
        }
    }
    run.describe(|| desc);
}

// ------------------------------------------------------------------------------------------
// supports and ranges

fn support_case<S, Pr, const P: usize>(run: &mut Run, rng: &mut Rng)
where
    S: SymT + AsPrimitive<Pr>,
    Pr: Num + Into<f64>,
    f64: AsPrimitive<Pr> + AsPrimitive<S>,
{
    run.count("support_cases", 1);
    let tmin = sym_to(S::min_value());
    let tmax = sym_to(S::max_value());
    let total = pow2(P as u32) as i128;
    let class = rng.below(9);
    let lo0 = tmin + rng.below128((tmax - tmin) as u128 + 1) as i64;
    let (lo, hi, name): (i64, i64, &str) = match class {
        0 => (lo0, lo0 - 1, "empty"),
        1 => (lo0, lo0, "single"),
        2 => (lo0, lo0 - rng.below(1000) as i64 - 2, "reversed"),
        3 => (lo0, lo0 + (total - 1) as i64, "exactly-2^P"),
        4 => (lo0, lo0 + total as i64, "2^P+1"),
        5 => (tmin, tmax, "whole-symbol-type"),
        6 => (lo0, lo0 + (pow2(Pr::NBITS) as i128 + rng.below(50) as i128).min(i64::MAX as i128 / 2) as i64, "wider-than-probability-type"),
        7 => (lo0, lo0 + (2 * pow2(Pr::NBITS) as i128 + 3).min(i64::MAX as i128 / 2) as i64, "two-laps-of-probability-type"),
        _ => (lo0, lo0 + 1 + rng.below128((total as u128 - 1).min(2000)) as i64, "valid"),
    };
    let lo = lo.clamp(tmin, tmax);
    let hi = hi.clamp(tmin, tmax);
    run.h(lo as u64);
    run.h(hi as u64 ^ (P as u64) << 52 ^ hash_str(name));
    if name != "valid" {
        run.nontrivial();
    }
    let size = hi as i128 - lo as i128 + 1;
    let desc = format!("LeakyQuantizer::<f64,{},{},{}>::new({lo}..={hi}) [{name}, {size} symbols, 2^P = {total}]", S::SNAME, Pr::NAME, P);
    run.note(|| desc.clone());
    let q = guarded!(run, "LeakyQuantizer::new", desc, LeakyQuantizer::<f64, S, Pr, P>::new(sym_from::<S>(lo)..=sym_from::<S>(hi)));
    let Some(q) = q else {
        run.count("rejected", 1);
        if size >= 2 && size <= total {
            run.count("valid_support_rejected_by_panic", 1);
        }
        return;
    };
    run.count("accepted", 1);
    if size < 2 || size > total {
        run.violation("broken-model-accepted", "C19/LeakyQuantizer/invalid-support-accepted", format!("{desc} was accepted"));
        return;
    }
    // a model over that support must be valid
    let dist = crate::dists::gen_dist(rng, lo as f64, hi as f64);
    let m = q.quantize(dist);
    if size > 70000 {
        return;
    }
    let r = guarded!(run, "LeakyQuantizer (use)", desc, table_via_encoder::<_, P>(&m, (lo..=hi).map(sym_from::<S>)));
    run.count("accepted_models_validated", 1);
    if let Some(Err(b)) = r {
        if cdf_precondition_holds(m.inner(), lo, hi).is_ok() {
            report(run, "LeakyQuantizer::new", &format!("{desc} with {}", m.inner().describe()), b);
        }
    }
    run.describe(|| desc);
}

fn uniform_case<Pr, const P: usize>(run: &mut Run, rng: &mut Rng)
where
    Pr: Num + AsPrimitive<usize>,
    usize: AsPrimitive<Pr>,
{
    run.count("uniform_cases", 1);
    let total = pow2(P as u32);
    let bitsz = pow2(Pr::NBITS);
    let range: u128 = match rng.below(10) {
        0 => 0,
        1 => 1,
        2 => total,
        3 => total + 1,
        4 => usize::MAX as u128,
        5 => bitsz,
        6 => bitsz + 1 + rng.below128(20),
        7 => total - 1,
        _ => 2 + rng.below128(total.min(5000) - 1),
    };
    let range = range.min(usize::MAX as u128) as usize;
    run.h(range as u64 ^ (P as u64) << 52 ^ 0xEF << 40);
    let valid = range >= 2 && (range as u128) <= total;
    if !valid {
        run.nontrivial();
    }
    let desc = format!("UniformModel::<{},{}>::new({range}) [2^P = {total}]", Pr::NAME, P);
    run.note(|| desc.clone());
    let Some(m) = guarded!(run, "UniformModel::new", desc, UniformModel::<Pr, P>::new(range)) else {
        run.count("rejected", 1);
        if valid {
            run.count("valid_range_rejected_by_panic", 1);
        }
        return;
    };
    run.count("accepted", 1);
    if !valid {
        run.violation("broken-model-accepted", "C19/UniformModel/invalid-range-accepted", format!("{desc} was accepted"));
        return;
    }
    if range <= 70000 {
        let ok = guarded!(run, "UniformModel (use)", desc, validate_encdec::<_, P>(run, rng, &m, range, "UniformModel::new", &desc));
        if ok != Some(true) {
            return;
        }
    }
    run.describe(|| desc);
}

pub fn case(run: &mut Run, rng: &mut Rng) {
    match rng.below(10) {
        0 | 1 => {
            let combos: &[fn(&mut Run, &mut Rng)] = &[
                float_case::<f64, u8, 8>,
                float_case::<f64, u8, 3>,
                float_case::<f64, u16, 12>,
                float_case::<f64, u32, 24>,
                float_case::<f64, u32, 32>,
                float_case::<f32, u16, 12>,
                float_case::<f32, u32, 24>,
                float_case::<f32, u32, 32>,
                float_case::<f64, u64, 64>,
                float_case::<f32, u8, 8>,
            ];
            let k = rng.below(combos.len() as u64) as usize;
            combos[k](run, rng)
        }
        2 | 3 => {
            let combos: &[fn(&mut Run, &mut Rng)] = &[
                float_case_small::<f64, u8, 8>,
                float_case_small::<f64, u8, 3>,
                float_case_small::<f64, u16, 12>,
                float_case_small::<f32, u16, 12>,
                float_case_small::<f32, u8, 8>,
                float_case_small::<f64, u16, 16>,
            ];
            let k = rng.below(combos.len() as u64) as usize;
            combos[k](run, rng)
        }
        4 | 5 => {
            let combos: &[fn(&mut Run, &mut Rng)] = &[
                fixed_case::<u8, 1>,
                fixed_case::<u8, 3>,
                fixed_case::<u8, 7>,
                fixed_case::<u8, 8>,
                fixed_case::<u16, 12>,
                fixed_case::<u16, 16>,
                fixed_case::<u32, 24>,
                fixed_case::<u32, 32>,
                fixed_case::<u64, 64>,
            ];
            let k = rng.below(combos.len() as u64) as usize;
            combos[k](run, rng)
        }
        6 => {
            let combos: &[fn(&mut Run, &mut Rng)] = &[fixed_case_lookup::<u8, 3>, fixed_case_lookup::<u8, 8>, fixed_case_lookup::<u16, 12>, fixed_case_lookup::<u16, 16>];
            let k = rng.below(combos.len() as u64) as usize;
            combos[k](run, rng)
        }
        7 | 8 => crate::quant_combos!(run, rng, support_case),
        _ => {
            let combos: &[fn(&mut Run, &mut Rng)] = &[
                uniform_case::<u8, 4>,
                uniform_case::<u8, 8>,
                uniform_case::<u16, 12>,
                uniform_case::<u16, 16>,
                uniform_case::<u32, 24>,
                uniform_case::<u32, 32>,
                uniform_case::<u64, 40>,
            ];
            let k = rng.below(combos.len() as u64) as usize;
            combos[k](run, rng)
        }
    }
}
