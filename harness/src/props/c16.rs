//! C16 — bit-level stack and queue coders are faithful LIFO/FIFO containers; Exp-Golomb codes
//! round-trip for every value of the integer type including the maximum.

use crate::num::Num;
use crate::prng::Rng;
use crate::report::Run;
use constriction::backends::Cursor;
use constriction::symbol::exp_golomb::ExpGolomb;
use constriction::symbol::huffman::{DecoderHuffmanTree, EncoderHuffmanTree};
use constriction::symbol::{DecoderCodebook, EncoderCodebook, QueueDecoder, QueueEncoder, ReadBitStream, StackCoder, WriteBitStream};
use constriction::UnwrapInfallible;

#[derive(Clone, Debug, PartialEq)]
enum Item {
    Bit(bool),
    Eg8(u8),
    Eg16(u16),
    Eg32(u32),
    Eg64(u64),
    Huff(usize),
}

fn eg_len(v_plus1_bits: u32, is_max: bool, type_bits: u32) -> usize {
    if is_max {
        2 * type_bits as usize + 1
    } else {
        2 * (v_plus1_bits as usize - 1) + 1
    }
}

fn item_bits(it: &Item, huff_lens: &[usize]) -> usize {
    match it {
        Item::Bit(_) => 1,
        Item::Eg8(v) => eg_len(8 - v.wrapping_add(1).leading_zeros(), *v == u8::MAX, 8),
        Item::Eg16(v) => eg_len(16 - v.wrapping_add(1).leading_zeros(), *v == u16::MAX, 16),
        Item::Eg32(v) => eg_len(32 - v.wrapping_add(1).leading_zeros(), *v == u32::MAX, 32),
        Item::Eg64(v) => eg_len(64 - v.wrapping_add(1).leading_zeros(), *v == u64::MAX, 64),
        Item::Huff(s) => huff_lens[*s],
    }
}

fn edgy64(rng: &mut Rng, bits: u32) -> u64 {
    rng.edgy(bits) as u64
}

fn gen_item(rng: &mut Rng, nhuff: usize) -> Item {
    match rng.below(9) {
        0..=3 => Item::Bit(rng.bool()),
        4 => Item::Eg8(edgy64(rng, 8) as u8),
        5 => Item::Eg16(edgy64(rng, 16) as u16),
        6 => Item::Eg32(edgy64(rng, 32) as u32),
        7 => Item::Eg64(edgy64(rng, 64)),
        _ => Item::Huff(rng.below(nhuff as u64) as usize),
    }
}

fn write_item<S: constriction::Semantics, C: WriteBitStream<S>>(c: &mut C, it: &Item, henc: &EncoderHuffmanTree) -> bool
where
    C::WriteError: core::fmt::Debug,
{
    match it {
        Item::Bit(b) => c.write_bit(*b).is_ok(),
        Item::Eg8(v) => c.encode_symbol(*v, ExpGolomb::<u8>::new()).is_ok(),
        Item::Eg16(v) => c.encode_symbol(*v, ExpGolomb::<u16>::new()).is_ok(),
        Item::Eg32(v) => c.encode_symbol(*v, ExpGolomb::<u32>::new()).is_ok(),
        Item::Eg64(v) => c.encode_symbol(*v, ExpGolomb::<u64>::new()).is_ok(),
        Item::Huff(s) => c.encode_symbol(*s, henc).is_ok(),
    }
}

fn read_item<S: constriction::Semantics, C: ReadBitStream<S>>(c: &mut C, like: &Item, hdec: &DecoderHuffmanTree) -> Option<Item>
where
    C::ReadError: core::fmt::Debug,
{
    Some(match like {
        Item::Bit(_) => Item::Bit(c.read_bit().ok()??),
        Item::Eg8(_) => Item::Eg8(c.decode_symbol(ExpGolomb::<u8>::new()).ok()?),
        Item::Eg16(_) => Item::Eg16(c.decode_symbol(ExpGolomb::<u16>::new()).ok()?),
        Item::Eg32(_) => Item::Eg32(c.decode_symbol(ExpGolomb::<u32>::new()).ok()?),
        Item::Eg64(_) => Item::Eg64(c.decode_symbol(ExpGolomb::<u64>::new()).ok()?),
        Item::Huff(_) => Item::Huff(c.decode_symbol(hdec).ok()?),
    })
}

fn huffman(rng: &mut Rng) -> (EncoderHuffmanTree, DecoderHuffmanTree, Vec<usize>) {
    // one codebook in eight is a deep comb (Fibonacci weights): code words of up to ~90 bits,
    // longer than any machine word a symbol coder might want to collect them in
    let (e, d, n) = if rng.chance(1, 8) {
        let n = rng.usize_in(60, 90);
        let mut w: Vec<u64> = vec![1, 1];
        while w.len() < n {
            let k = w.len();
            w.push(w[k - 1] + w[k - 2]);
        }
        if rng.bool() {
            w.reverse();
        }
        (EncoderHuffmanTree::from_probabilities::<u64, _>(&w), DecoderHuffmanTree::from_probabilities::<u64, _>(&w), n)
    } else {
        let n = rng.usize_in(1, 12);
        let w: Vec<u32> = (0..n).map(|_| 1 + rng.below(9) as u32).collect();
        (EncoderHuffmanTree::from_probabilities::<u32, _>(&w), DecoderHuffmanTree::from_probabilities::<u32, _>(&w), n)
    };
    let lens: Vec<usize> = (0..n)
        .map(|s| {
            let mut l = 0usize;
            e.encode_symbol_prefix(s, |_| {
                l += 1;
                Ok::<(), core::convert::Infallible>(())
            })
            .unwrap();
            l
        })
        .collect();
    (e, d, lens)
}

fn stack_case<W: Num>(run: &mut Run, rng: &mut Rng) {
    let wb = W::NBITS as usize;
    run.count("stack_cases", 1);
    run.h(1 << 60 | wb as u64);
    let (henc, hdec, hlens) = huffman(rng);
    let mut st = if rng.bool() { StackCoder::<W>::new() } else { StackCoder::<W>::with_bit_capacity(rng.usize_in(0, 200)) };
    let mut shadow: Vec<Item> = Vec::new();
    let mut bits = 0usize;
    let n = rng.usize_in(1, if run.small { 25 } else { 120 });
    let mut log: Vec<String> = Vec::new();
    let mut boundary_ops = 0u64;
    macro_rules! fail {
        ($sig:expr, $($arg:tt)*) => {{
            run.violation("bit-container", $sig, format!("StackCoder<{}> ops {:?} :: {}", W::NAME, log, format!($($arg)*)));
            return;
        }};
    }
    for _ in 0..n {
        let op = rng.below(15);
        run.h(op);
        if bits % wb == 0 {
            boundary_ops += 1;
        }
        match op {
            0..=4 => {
                let it = gen_item(rng, hlens.len());
                if !write_item::<constriction::Stack, _>(&mut st, &it, &henc) {
                    fail!("C16/write-failed", "writing {it:?} failed");
                }
                bits += item_bits(&it, &hlens);
                log.push(format!("w{it:?}"));
                shadow.push(it);
            }
            5..=7 => {
                if let Some(e) = shadow.pop() {
                    let g = read_item::<constriction::Stack, _>(&mut st, &e, &hdec);
                    log.push(format!("r{e:?}"));
                    bits -= item_bits(&e, &hlens);
                    if g.as_ref() != Some(&e) {
                        fail!("C16/stack-order", "read {g:?}, expected {e:?}");
                    }
                } else {
                    let g = st.read_bit().unwrap_infallible();
                    if g.is_some() {
                        fail!("C16/stack-order", "read_bit on an empty stack returned {g:?}");
                    }
                }
            }
            8 => {
                if st.len() != bits || st.is_empty() != (bits == 0) {
                    fail!("C16/len", "len()={} is_empty()={} with {bits} bits on the stack", st.len(), st.is_empty());
                }
            }
            9 => {
                // export to words and re-import: same content (Vec backend)
                let words = st.into_compressed().unwrap_infallible();
                log.push(format!("export->import({} words)", words.len()));
                st = match StackCoder::<W>::from_compressed(words.clone()) {
                    Ok(s) => s,
                    Err(_) => fail!("C16/reimport-refused", "from_compressed refused the coder's own export {:?}", words.iter().map(|x| x.as_u()).collect::<Vec<_>>()),
                };
                if st.len() != bits {
                    fail!("C16/reimport-changes-content", "after into_compressed -> from_compressed: len()={} but {bits} bits were on the stack; exported words {:?}", st.len(), words.iter().map(|x| x.as_u()).collect::<Vec<_>>());
                }
                run.count("reimports", 1);
            }
            10 => {
                // export and re-import through a Cursor, read everything there
                let mut twin = StackCoder::<W>::new();
                for it in &shadow {
                    write_item::<constriction::Stack, _>(&mut twin, it, &henc);
                }
                let words = twin.into_compressed().unwrap_infallible();
                let mut c = match StackCoder::<W, Cursor<W, Vec<W>>>::from_compressed(Cursor::new_at_write_end(words.clone())) {
                    Ok(c) => c,
                    Err(_) => fail!("C16/reimport-refused", "from_compressed(Cursor) refused own export"),
                };
                log.push("cursor-reimport".to_string());
                for e in shadow.iter().rev() {
                    let g = read_item::<constriction::Stack, _>(&mut c, e, &hdec);
                    if g.as_ref() != Some(e) {
                        fail!("C16/reimport-changes-content", "after re-import through a Cursor read {g:?}, expected {e:?}; words {:?}", words.iter().map(|x| x.as_u()).collect::<Vec<_>>());
                    }
                }
                if c.read_bit().unwrap_infallible().is_some() {
                    fail!("C16/reimport-changes-content", "re-imported stack has extra bits");
                }
                run.count("reimports", 1);
            }
            12 => {
                // batch forms with Huffman codebooks: (reverse) iid encode, iid / per-codebook decode
                let k = rng.usize_in(1, 6);
                let syms: Vec<usize> = (0..k).map(|_| rng.below(hlens.len() as u64) as usize).collect();
                let form = rng.below(3);
                let r = match form {
                    0 => st.encode_iid_symbols(syms.iter().copied(), &henc),
                    1 => st.encode_iid_symbols_reverse(syms.iter().rev().copied(), &henc),
                    _ => st.encode_symbols_reverse(syms.iter().rev().map(|&s| (s, &henc))),
                };
                if r.is_err() {
                    fail!("C16/write-failed", "batch encode form {form} failed");
                }
                for &sy in &syms {
                    bits += hlens[sy];
                    shadow.push(Item::Huff(sy));
                }
                log.push(format!("batch_encode(form={form},{syms:?})"));
                // read some of them back in a batch
                let kk = rng.usize_in(0, k);
                let got: Vec<usize> = if rng.bool() {
                    st.decode_iid_symbols(kk, &hdec).map(|r| r.expect("batch decode")).collect()
                } else {
                    st.decode_symbols((0..kk).map(|_| &hdec)).map(|r| r.expect("batch decode")).collect()
                };
                for g in got {
                    let e = shadow.pop().unwrap();
                    bits -= item_bits(&e, &hlens);
                    if e != Item::Huff(g) {
                        fail!("C16/stack-order", "batch decode returned symbol {g}, expected {e:?}");
                    }
                }
                run.count("batch_ops", 1);
            }
            13 => {
                // consuming views on an identical twin: into_decoder / into_iterator / ExactSizeIterator::len
                let mut twin = StackCoder::<W>::new();
                for it in &shadow {
                    write_item::<constriction::Stack, _>(&mut twin, it, &henc);
                }
                if rng.bool() {
                    let mut d = twin.into_decoder();
                    if ExactSizeIterator::len(&d) != bits {
                        fail!("C16/len", "into_decoder(): ExactSizeIterator::len()={} with {bits} bits", ExactSizeIterator::len(&d));
                    }
                    for e in shadow.iter().rev() {
                        let g = read_item::<constriction::Stack, _>(&mut d, e, &hdec);
                        if g.as_ref() != Some(e) {
                            fail!("C16/stack-order", "into_decoder read {g:?}, expected {e:?}");
                        }
                    }
                } else {
                    let n = twin.into_iterator().count();
                    if n != bits {
                        fail!("C16/len", "into_iterator() yields {n} bits, expected {bits}");
                    }
                }
                log.push("consuming view".to_string());
            }
            11 => {
                // temporary view of the sealed words: must show what into_compressed would return
                // and must leave the coder untouched (also when the current word is exactly full)
                let mut twin = StackCoder::<W>::new();
                for it in &shadow {
                    write_item::<constriction::Stack, _>(&mut twin, it, &henc);
                }
                let exp = twin.into_compressed().unwrap_infallible();
                let got: Vec<W> = st.get_compressed().to_vec();
                log.push("get_compressed".to_string());
                if got != exp {
                    fail!("C16/view-differs", "get_compressed() shows {:?}, into_compressed of an identical coder returns {:?}", got.iter().map(|x| x.as_u()).collect::<Vec<_>>(), exp.iter().map(|x| x.as_u()).collect::<Vec<_>>());
                }
                if st.len() != bits || st.is_empty() != (bits == 0) {
                    fail!("C16/inspection-changed-content", "after dropping the get_compressed() view: len()={} is_empty()={} with {bits} bits on the stack", st.len(), st.is_empty());
                }
                run.count("stack_views", 1);
            }
            _ => {
                // views: iter / as_decoder / into_decoder on a twin
                let bitsv: Vec<bool> = st.iter().map(|r| r.unwrap_infallible()).collect();
                if bitsv.len() != bits {
                    fail!("C16/len", "iter() yields {} bits, expected {bits}", bitsv.len());
                }
                let mut d = st.as_decoder();
                for e in shadow.iter().rev().take(6) {
                    let g = read_item::<constriction::Stack, _>(&mut d, e, &hdec);
                    if g.as_ref() != Some(e) {
                        fail!("C16/stack-order", "as_decoder read {g:?}, expected {e:?}");
                    }
                }
            }
        }
    }
    // drain
    while let Some(e) = shadow.pop() {
        let g = read_item::<constriction::Stack, _>(&mut st, &e, &hdec);
        if g.as_ref() != Some(&e) {
            fail!("C16/stack-order", "final drain read {g:?}, expected {e:?}");
        }
    }
    if !st.is_empty() || st.read_bit().unwrap_infallible().is_some() {
        fail!("C16/len", "stack not empty after draining");
    }
    run.count("bit_ops", n as u64);
    run.count("ops_at_word_boundary", boundary_ops);
    if boundary_ops > 0 {
        run.nontrivial();
    }
    run.describe(|| format!("StackCoder<{}> {:?}", W::NAME, log));
}

fn queue_case<W: Num>(run: &mut Run, rng: &mut Rng) {
    let wb = W::NBITS as usize;
    run.count("queue_cases", 1);
    run.h(2 << 60 | wb as u64);
    let (henc, hdec, hlens) = huffman(rng);
    // a queue encoder may be started on existing (whole) words
    let prefix: Vec<W> = if rng.chance(1, 4) { (0..rng.usize_in(0, 3)).map(|_| W::of(rng.edgy(W::NBITS))).collect() } else { Vec::new() };
    let mut qu = if !prefix.is_empty() {
        QueueEncoder::<W>::from_compressed(prefix.clone())
    } else if rng.bool() {
        QueueEncoder::<W>::new()
    } else {
        QueueEncoder::<W>::with_bit_capacity(rng.usize_in(0, 200))
    };
    let mut items: Vec<Item> = Vec::new();
    let mut bits = prefix.len() * wb;
    // the prefix words read back as raw bits, least significant first
    for wd in &prefix {
        for b in 0..wb {
            items.push(Item::Bit((wd.as_u() >> b) & 1 == 1));
        }
    }
    let prefix_items = items.len();
    let n = rng.usize_in(0, if run.small { 25 } else { 120 });
    for _ in 0..n {
        let it = gen_item(rng, hlens.len());
        if !write_item::<constriction::Queue, _>(&mut qu, &it, &henc) {
            run.violation("bit-container", "C16/write-failed", format!("QueueEncoder<{}> writing {it:?} failed", W::NAME));
            return;
        }
        bits += item_bits(&it, &hlens);
        run.h(bits as u64);
        items.push(it);
        if qu.len() != bits {
            run.violation("bit-container", "C16/len", format!("QueueEncoder<{}>::len()={} after {bits} bits; items {:?}", W::NAME, qu.len(), items));
            return;
        }
    }
    if bits % wb == 0 {
        run.nontrivial();
        run.count("ops_at_word_boundary", 1);
    }
    let path = rng.below(3);
    let desc = format!("QueueEncoder<{}> {} items, {bits} bits, path {path}", W::NAME, items.len());
    match path {
        0 => {
            let mut d = qu.into_decoder().unwrap_infallible();
            for (i, e) in items.iter().enumerate() {
                let g = read_item::<constriction::Queue, _>(&mut d, e, &hdec);
                if g.as_ref() != Some(e) {
                    run.violation("bit-container", "C16/queue-order", format!("{desc} :: item #{i} read {g:?}, expected {e:?}; items {:?}", items));
                    return;
                }
            }
            if !d.maybe_exhausted() {
                run.violation("bit-container", "C16/queue-exhausted", format!("{desc} :: maybe_exhausted() false after reading everything"));
                return;
            }
        }
        1 => {
            let words = qu.into_compressed().unwrap_infallible();
            if words.len() != bits.div_ceil(wb) {
                run.violation("bit-container", "C16/len", format!("{desc} :: {} words for {bits} bits", words.len()));
                return;
            }
            let mut d = QueueDecoder::<W, _>::from_compressed(Cursor::new_at_write_beginning(words));
            for (i, e) in items.iter().enumerate() {
                let g = read_item::<constriction::Queue, _>(&mut d, e, &hdec);
                if g.as_ref() != Some(e) {
                    run.violation("bit-container", "C16/queue-order", format!("{desc} :: item #{i} read {g:?}, expected {e:?} (via words)"));
                    return;
                }
            }
        }
        _ => {
            // overshooting iterator: exactly the bits, then only zero padding up to the word end
            let it = qu.into_overshooting_iter().unwrap_infallible();
            let got: Vec<bool> = it.map(|r| r.unwrap_infallible()).collect();
            let mut expect: Vec<bool> = Vec::new();
            let _ = prefix_items;
            for e in &items {
                let mut tmp = QueueEncoder::<u64>::new();
                write_item::<constriction::Queue, _>(&mut tmp, e, &henc);
                let l = tmp.len();
                let all: Vec<bool> = tmp.into_overshooting_iter().unwrap_infallible().map(|r| r.unwrap_infallible()).collect();
                expect.extend_from_slice(&all[..l]);
            }
            let padded = bits.div_ceil(wb) * wb;
            if got.len() != padded || got[..bits] != expect[..] || got[bits..].iter().any(|&b| b) {
                run.violation("bit-container", "C16/queue-order", format!("{desc} :: overshooting iterator yields {} bits (expected {padded}); payload equal: {}", got.len(), got.len() >= bits && got[..bits] == expect[..]));
                return;
            }
        }
    }
    run.count("bit_ops", n as u64);
    run.describe(|| desc);
}

/// Bit coders over sinks whose writes can fail (bounded cursor; sink with an injected transient
/// fault; sink with a capacity): a bit whose `write_bit` returned `Err` was not written, and every
/// bit whose `write_bit` returned `Ok` still comes back in order. Only single-bit writes are used
/// here, so no partially written code word can blur what "written" means.
fn failing_stack<W: Num, B>(run: &mut Run, rng: &mut Rng, backend: B, what: &str)
where
    B: constriction::backends::WriteWords<W> + constriction::backends::BoundedReadWords<W, constriction::Stack>,
    B::ReadError: core::fmt::Debug,
{
    let wb = W::NBITS as usize;
    let mut st = match StackCoder::<W, B>::from_compressed(backend) {
        Ok(s) => s,
        Err(_) => {
            run.violation("bit-container", "C16/from_compressed-empty", format!("{what}: from_compressed on an empty backend failed"));
            return;
        }
    };
    let mut shadow: Vec<bool> = Vec::new();
    let mut log = String::new();
    let n = rng.usize_in(wb, 5 * wb + 8);
    let mut refused = 0u64;
    let read_16 = *rng.pick(&[0u64, 2, 5]);
    for _ in 0..n {
        if rng.below(16) < read_16 {
            let g = match st.read_bit() {
                Ok(g) => g,
                Err(e) => {
                    run.violation("bit-container", "C16/read-error", format!("{what}: read_bit failed: {e:?}"));
                    return;
                }
            };
            log.push('r');
            if g != shadow.pop() {
                run.violation("bit-container", "C16/stack-order-after-refused-write", format!("{what} StackCoder<{}> ops {log} :: read {g:?}; {refused} writes were refused before", W::NAME));
                return;
            }
        } else {
            let b = rng.bool();
            match st.write_bit(b) {
                Ok(()) => {
                    shadow.push(b);
                    log.push(if b { '1' } else { '0' });
                }
                Err(_) => {
                    refused += 1;
                    log.push('!');
                }
            }
        }
        if st.len() != shadow.len() {
            run.violation("bit-container", "C16/len-after-refused-write", format!("{what} StackCoder<{}> ops {log} :: len()={} with {} bits accepted", W::NAME, st.len(), shadow.len()));
            return;
        }
    }
    // everything accepted comes back, in reverse
    while let Some(e) = shadow.pop() {
        let g = st.read_bit().ok().flatten();
        if g != Some(e) {
            run.violation("bit-container", "C16/stack-order-after-refused-write", format!("{what} StackCoder<{}> ops {log} :: draining read {g:?}, expected {e}; {refused} writes were refused", W::NAME));
            return;
        }
    }
    if !st.is_empty() || st.read_bit().ok().flatten().is_some() {
        run.violation("bit-container", "C16/stack-order-after-refused-write", format!("{what} StackCoder<{}> ops {log} :: not empty after draining", W::NAME));
        return;
    }
    run.count("refused_bit_writes", refused);
    if refused > 0 {
        run.count("cases_with_refused_writes", 1);
        run.nontrivial();
    }
    run.h(refused << 8 | wb as u64);
    run.describe(|| format!("{what} StackCoder<{}> {log}", W::NAME));
}

fn failing_case<W: Num>(run: &mut Run, rng: &mut Rng) {
    use crate::obsbackend::FaultyBackend;
    let wb = W::NBITS as usize;
    run.count("failing_backend_cases", 1);
    run.h(3 << 60 | wb as u64);
    match rng.below(4) {
        0 => {
            let cap = rng.usize_in(0, 3);
            failing_stack::<W, _>(run, rng, Cursor::new_at_write_beginning(vec![W::of(0); cap]), "bounded cursor");
        }
        1 => {
            let k = rng.below(4) + 1;
            failing_stack::<W, _>(run, rng, FaultyBackend::<W>::new(Some(k), None), "transient fault");
        }
        2 => {
            let cap = rng.usize_in(0, 3);
            failing_stack::<W, _>(run, rng, FaultyBackend::<W>::new(None, Some(cap)), "capacity");
        }
        _ => {
            // queue encoder over a sink with one transient fault
            let k = rng.below(4) + 1;
            let mut qu = QueueEncoder::<W, FaultyBackend<W>>::from_compressed(FaultyBackend::new(Some(k), None));
            let mut shadow: Vec<bool> = Vec::new();
            let mut log = String::new();
            let n = rng.usize_in(wb, 5 * wb + 8);
            let mut refused = 0u64;
            for _ in 0..n {
                let b = rng.bool();
                match qu.write_bit(b) {
                    Ok(()) => {
                        shadow.push(b);
                        log.push(if b { '1' } else { '0' });
                    }
                    Err(_) => {
                        refused += 1;
                        log.push('!');
                    }
                }
                if qu.len() != shadow.len() {
                    run.violation("bit-container", "C16/len-after-refused-write", format!("QueueEncoder<{}> ops {log} :: len()={} with {} bits accepted", W::NAME, qu.len(), shadow.len()));
                    return;
                }
            }
            match qu.into_compressed() {
                Ok(b) => {
                    let mut got: Vec<bool> = Vec::new();
                    for wd in &b.v {
                        for i in 0..wb {
                            got.push((wd.as_u() >> i) & 1 == 1);
                        }
                    }
                    if got.len() != shadow.len().div_ceil(wb) * wb || got[..shadow.len()] != shadow[..] || got[shadow.len()..].iter().any(|&x| x) {
                        run.violation("bit-container", "C16/queue-order-after-refused-write", format!("QueueEncoder<{}> ops {log} :: exported words do not hold the accepted bits; {refused} writes were refused", W::NAME));
                        return;
                    }
                }
                Err(_) => run.count("final_flush_refused", 1),
            }
            run.count("refused_bit_writes", refused);
            if refused > 0 {
                run.count("cases_with_refused_writes", 1);
                run.nontrivial();
            }
            run.describe(|| format!("QueueEncoder<{}> over faulty sink {log}", W::NAME));
        }
    }
}

/// Exp-Golomb round trips: exhaustive for u8 and (thorough) u16, edges for u32/u64, through
/// both prefix and suffix forms and both containers.
pub fn exp_golomb_sweep(run: &mut Run) {
    if run.shard != 0 {
        return;
    }
    fn one<N>(run: &mut Run, v: N) -> bool
    where
        N: num_traits::Unsigned + num_traits::PrimInt + num_traits::WrappingAdd + num_traits::WrappingSub + core::fmt::Debug,
    {
        let cb = ExpGolomb::<N>::new();
        let mut st = StackCoder::<u8>::new();
        let mut qu = QueueEncoder::<u8>::new();
        st.encode_symbol(v, &cb).unwrap();
        qu.encode_symbol(v, &cb).unwrap();
        // prefix form must be the reverse of the suffix form
        let mut pre: Vec<bool> = Vec::new();
        let mut suf: Vec<bool> = Vec::new();
        cb.encode_symbol_prefix(v, |b| {
            pre.push(b);
            Ok::<(), core::convert::Infallible>(())
        })
        .unwrap();
        cb.encode_symbol_suffix(v, |b| {
            suf.push(b);
            Ok::<(), core::convert::Infallible>(())
        })
        .unwrap();
        suf.reverse();
        let a = st.decode_symbol(&cb);
        let mut qd = qu.into_decoder().unwrap_infallible();
        let b = qd.decode_symbol(&cb);
        let c = cb.decode_symbol(pre.iter().map(|&x| Ok::<bool, core::convert::Infallible>(x)));
        let ok = matches!(&a, Ok(x) if *x == v) && matches!(&b, Ok(x) if *x == v) && matches!(&c, Ok(x) if *x == v) && pre == suf && st.is_empty();
        if !ok {
            run.violation("exp-golomb", "C16/exp-golomb-roundtrip", format!("ExpGolomb<{}> value {v:?}: stack {a:?}, queue {b:?}, direct {c:?}, prefix==reversed suffix: {}", core::any::type_name::<N>(), pre == suf));
        }
        ok
    }
    let mut n = 0u64;
    // (under Miri the sweeps are thinned out: it interprets ~10^4 times slower)
    for v in (0..=u8::MAX).step_by(if run.small { 15 } else { 1 }) {
        if !one::<u8>(run, v) {
            return;
        }
        n += 1;
    }
    let step16 = if run.small { 4369 } else if run.thorough() { 1 } else { 7 };
    let mut v = 0u32;
    while v <= u16::MAX as u32 {
        if !one::<u16>(run, v as u16) {
            return;
        }
        n += 1;
        v += step16;
    }
    one::<u16>(run, u16::MAX);
    for k in 0..64u32 {
        if run.small && k % 9 != 0 && k != 63 {
            continue;
        }
        for d in [-1i64, 0, 1] {
            let x = (1u64 << k).wrapping_add(d as u64);
            if k < 32 {
                if !one::<u32>(run, x as u32) {
                    return;
                }
                n += 1;
            }
            if !one::<u64>(run, x) {
                return;
            }
            n += 1;
            run.heartbeat();
        }
    }
    for x in [0u64, 1, u64::MAX, u64::MAX - 1, u32::MAX as u64, u32::MAX as u64 - 1] {
        one::<u64>(run, x);
        one::<u32>(run, x as u32);
        one::<usize>(run, x as usize);
        n += 3;
    }
    run.count("exp_golomb_values_checked", n);
}

pub fn case(run: &mut Run, rng: &mut Rng) {
    macro_rules! by_word {
        ($f:ident) => {
            match rng.below(5) {
                0 => $f::<u8>(run, rng),
                1 => $f::<u16>(run, rng),
                2 => $f::<u32>(run, rng),
                3 => $f::<u64>(run, rng),
                _ => $f::<usize>(run, rng),
            }
        };
    }
    if rng.chance(1, 8) {
        by_word!(failing_case)
    } else if rng.chance(3, 5) {
        by_word!(stack_case)
    } else {
        by_word!(queue_case)
    }
}
