//! C14 — chain coder decoding is local: symbol i depends only on chunk i and model i.
//!
//! There is no published specification of which bits form "the i-th chunk", so the chunk map is
//! obtained black-box from the real coder: decoding the same data with an *identity* model
//! (2^P symbols of probability 1, symbol == quantile) yields the chunks themselves. Then
//!  (a) with arbitrary models, symbol_i == model_i.lookup(chunk_i), and the coder runs out of
//!      data at exactly the same step as the identity run;
//!  (b) replacing the model at one position changes at most the symbol at that position;
//!  (c) flipping one data bit changes at most one chunk (none if the bit is consumed by the
//!      head initialisation) and never the step at which data runs out;
//!  (d) operations that are *refused* in between - a decode after the data ran out, a seek the
//!      backend rejects, a read the word source fails transiently - do not shift the
//!      correspondence: the i-th successfully decoded symbol still comes from chunk i, and a
//!      coder that ran out of data stays out of data however often one retries.

use crate::num::Num;
use crate::prng::Rng;
use crate::props::c13::gen_chain_data;
use crate::report::Run;
use crate::table::*;
use constriction::backends::FallibleIteratorReadWords;
use constriction::stream::chain::{BackendError, ChainCoder, DecoderFrontendError};
use constriction::stream::Decode;
use constriction::{Pos, Seek};
use constriction::CoderError;
use num_traits::AsPrimitive;

type CC<W, S, const P: usize> = ChainCoder<W, S, Vec<W>, Vec<W>, P>;

fn build<W, S, const P: usize>(data: &[W], compressed: bool) -> Option<CC<W, S, P>>
where
    W: Num + Into<S>,
    S: Num + AsPrimitive<W>,
{
    let r = if compressed { CC::<W, S, P>::from_compressed(data.to_vec()) } else { CC::<W, S, P>::from_binary(data.to_vec()) };
    r.ok()
}

/// chunks of `data` (all of them, until the coder runs out), via the identity model
fn chunks<W, S, Pr, const P: usize>(data: &[W], compressed: bool, limit: usize) -> Option<Vec<u128>>
where
    W: Num + Into<S> + AsPrimitive<Pr>,
    S: Num + AsPrimitive<W>,
    Pr: Num + Into<W>,
{
    let mut c = build::<W, S, P>(data, compressed)?;
    let id = IdentityModel::<Pr, P>::new();
    let mut out = Vec::new();
    while out.len() < limit {
        match c.decode_symbol(id) {
            Ok(q) => out.push(q),
            Err(CoderError::Frontend(DecoderFrontendError::OutOfCompressedData)) => break,
            Err(_) => return None,
        }
    }
    Some(out)
}

/// decode with the given models until out of data; returns symbols
fn decode_with<W, S, Pr, const P: usize>(data: &[W], compressed: bool, models: &[&TableModel<Pr, P>]) -> Option<Vec<usize>>
where
    W: Num + Into<S> + AsPrimitive<Pr>,
    S: Num + AsPrimitive<W>,
    Pr: Num + Into<W>,
{
    let mut c = build::<W, S, P>(data, compressed)?;
    let mut out = Vec::new();
    for m in models {
        match c.decode_symbol(*m) {
            Ok(s) => out.push(s),
            Err(CoderError::Frontend(DecoderFrontendError::OutOfCompressedData)) => break,
            Err(_) => return None,
        }
    }
    Some(out)
}

fn combo<W, S, Pr, const P: usize>(run: &mut Run, rng: &mut Rng)
where
    W: Num + Into<S> + AsPrimitive<Pr>,
    S: Num + AsPrimitive<W>,
    Pr: Num + Into<W>,
{
    run.count("cases", 1);
    run.h(W::NBITS as u64 * 1000 + S::NBITS as u64 ^ (P as u64) << 20);
    let compressed = rng.bool();
    let data: Vec<W> = gen_chain_data(rng, if run.small { 8 } else { 30 }, compressed);
    for x in &data {
        run.h128(x.as_u());
    }
    let du: Vec<u128> = data.iter().map(|x| x.as_u()).collect();
    let desc = format!("ChainCoder<{},{},P={}> {} data {:?}", W::NAME, S::NAME, P, if compressed { "from_compressed" } else { "from_binary" }, du);
    run.note(|| desc.clone());
    let limit = if run.small { 12 } else { 400 };
    let Some(ch) = chunks::<W, S, Pr, P>(&data, compressed, limit) else {
        run.count("construction_refused", 1);
        return;
    };
    let m = ch.len();
    if m == 0 {
        run.count("no_chunks", 1);
        return;
    }
    macro_rules! fail {
        ($sig:expr, $($arg:tt)*) => {{
            run.violation("locality", $sig, format!("{desc} :: {m} chunks :: {}", format!($($arg)*)));
            return;
        }};
    }
    // (a) arbitrary models: symbol_i == model_i(chunk_i); same exhaustion point
    let zoo: Vec<TableModel<Pr, P>> = (0..rng.usize_in(1, 5)).map(|_| TableModel::new(gen_cdf(rng, P as u32, 40))).collect();
    let n_models = if m < limit { m + 2 } else { m };
    let assign: Vec<usize> = (0..n_models).map(|_| rng.below(zoo.len() as u64) as usize).collect();
    let models: Vec<&TableModel<Pr, P>> = assign.iter().map(|&i| &zoo[i]).collect();
    let Some(base) = decode_with::<W, S, Pr, P>(&data, compressed, &models) else {
        fail!("C14/undocumented-error", "decoding with table models failed");
    };
    if base.len() != m {
        fail!("C14/exhaustion-depends-on-models", "identity run yields {m} symbols before running out, the run with table models {}", base.len());
    }
    for i in 0..m {
        let exp = zoo[assign[i]].lookup(ch[i]);
        if base[i] != exp {
            fail!("C14/symbol-not-function-of-chunk", "symbol #{i} is {}, but model_i(chunk_i = {}) = {exp}", base[i], ch[i]);
        }
    }
    run.count("symbols_checked", m as u64);
    // (b) replace the model at position j
    let positions: Vec<usize> = if m <= 64 { (0..m).collect() } else { (0..64).map(|_| rng.below(m as u64) as usize).collect() };
    let alt = TableModel::<Pr, P>::new(gen_cdf(rng, P as u32, 40));
    let mut perturbed = 0u64;
    for &j in &positions {
        let mut ms = models.clone();
        ms[j] = &alt;
        let Some(got) = decode_with::<W, S, Pr, P>(&data, compressed, &ms) else {
            fail!("C14/undocumented-error", "decoding failed after replacing model {j}");
        };
        perturbed += 1;
        if got.len() != m {
            fail!("C14/exhaustion-depends-on-models", "replacing the model at position {j} changes when the coder runs out of data ({} instead of {m} symbols)", got.len());
        }
        for i in 0..m {
            if i != j && got[i] != base[i] {
                fail!("C14/model-change-not-local", "replacing the model at position {j} changed symbol #{i} from {} to {}", base[i], got[i]);
            }
        }
        if got[j] != alt.lookup(ch[j]) {
            fail!("C14/symbol-not-function-of-chunk", "with the replaced model symbol #{j} is {}, expected {}", got[j], alt.lookup(ch[j]));
        }
    }
    run.count("model_replacements", perturbed);
    // (c) flip data bits
    let total_bits = data.len() * W::NBITS as usize;
    let flips: Vec<usize> = if total_bits <= 96 { (0..total_bits).collect() } else { (0..96).map(|_| rng.below(total_bits as u64) as usize).collect() };
    let mut flips_done = 0u64;
    let mut flips_into_heads = 0u64;
    for &b in &flips {
        let mut d2 = data.clone();
        let (wi, bi) = (b / W::NBITS as usize, b % W::NBITS as usize);
        d2[wi] = W::of(d2[wi].as_u() ^ (1u128 << bi));
        if compressed && wi == data.len() - 1 && d2[wi].as_u() == 0 {
            continue; // would no longer be valid input for from_compressed
        }
        let Some(ch2) = chunks::<W, S, Pr, P>(&d2, compressed, limit) else {
            if compressed {
                // flipping bits of the top words can make from_compressed need more words
                continue;
            }
            fail!("C14/undocumented-error", "identity decoding failed after flipping bit {b}");
        };
        flips_done += 1;
        if compressed && wi + (S::NBITS / W::NBITS) as usize >= data.len() {
            // with from_compressed the number of words pulled into the heads depends on the
            // value of the top words, so flips there may legitimately shift everything
            continue;
        }
        if ch2.len() != m {
            fail!("C14/bit-flip-changes-exhaustion", "flipping data bit {b} changes the number of chunks from {m} to {}", ch2.len());
        }
        let diff: Vec<usize> = (0..m).filter(|&i| ch[i] != ch2[i]).collect();
        if diff.len() > 1 {
            fail!("C14/bit-flip-not-local", "flipping data bit {b} (word {wi}, bit {bi}) changed chunks {:?}", diff);
        }
        if diff.is_empty() {
            flips_into_heads += 1;
        }
    }
    // (d) refused operations in between do not shift anything
    {
        // d1/d2: same models, with seeks the backend must refuse, and retries after the end
        let Some(mut c) = build::<W, S, P>(&data, compressed) else {
            fail!("C14/undocumented-error", "second construction from the same data failed");
        };
        let mut snap = c.pos();
        let mut snap_i = 0usize;
        let mut refused = 0u64;
        let mut rewinds = 0u64;
        let mut got: Vec<usize> = Vec::new();
        let mut ended = false;
        let mut i = 0usize;
        while i < models.len() {
            if rng.chance(1, 4) {
                let here = c.pos();
                if here.0.compressed < snap.0.compressed {
                    // a Vec can only be sought downwards, so going back to `snap` is impossible
                    match c.seek(snap) {
                        Err(()) => refused += 1,
                        Ok(()) => fail!("C14/seek-back-accepted", "seek from compressed position {:?} back to {:?} succeeded on a Vec", here.0.compressed, snap.0.compressed),
                    }
                    // that snapshot is out of reach for good: take a new one here
                    snap = here;
                    snap_i = i;
                } else if here.0 == snap.0 && i > snap_i && rewinds < 3 && rng.bool() {
                    // same backend positions (no word was consumed or flushed since the snapshot),
                    // other heads: this seek is possible and must rewind to the snapshot's chunk
                    if c.seek(snap).is_err() {
                        fail!("C14/seek-within-word-refused", "seek back to a snapshot with identical backend positions was refused");
                    }
                    rewinds += 1;
                    got.truncate(snap_i);
                    i = snap_i;
                } else if rng.bool() {
                    snap = here;
                    snap_i = i;
                }
            }
            match c.decode_symbol(models[i]) {
                Ok(sy) => got.push(sy),
                Err(CoderError::Frontend(DecoderFrontendError::OutOfCompressedData)) => {
                    ended = true;
                    break;
                }
                Err(e) => fail!("C14/undocumented-error", "decode #{i} returned {e:?}"),
            }
            i += 1;
        }
        run.count("seeks_back_within_a_word", rewinds);
        if got != base {
            let k = (0..got.len().min(base.len())).find(|&i| got[i] != base[i]);
            fail!("C14/refused-seek-shifts-chunks", "with {refused} refused seeks in between, {} symbols were decoded instead of {m}; first difference at {k:?}", got.len());
        }
        run.count("refused_seeks", refused);
        if ended {
            let retries = rng.usize_in(1, 6);
            for r in 0..retries {
                let mdl = &zoo[rng.below(zoo.len() as u64) as usize];
                match c.decode_symbol(mdl) {
                    Err(CoderError::Frontend(DecoderFrontendError::OutOfCompressedData)) => {}
                    other => fail!("C14/out-of-data-not-final", "retry #{r} after running out of data returned {other:?}"),
                }
            }
            run.count("retries_after_out_of_data", retries as u64);
        }
        // d4: going back with `clone_from(&snapshot)` (and `clone()`): decoding resumes at the
        // snapshot's chunk
        if m >= 2 {
            let Some(mut c) = build::<W, S, P>(&data, compressed) else {
                fail!("C14/undocumented-error", "third construction from the same data failed");
            };
            let a = rng.usize_in(0, m - 1);
            let b = rng.usize_in(a + 1, m);
            let mut snap = None;
            for (i, mdl) in models.iter().enumerate().take(b) {
                if i == a {
                    snap = Some(c.clone());
                }
                if c.decode_symbol(*mdl).is_err() {
                    fail!("C14/undocumented-error", "decode #{i} failed although the base run decoded {m} symbols");
                }
            }
            let snap = snap.unwrap();
            if rng.bool() {
                c.clone_from(&snap);
            } else {
                c = snap.clone();
            }
            for (i, mdl) in models.iter().enumerate().skip(a).take(m - a) {
                match c.decode_symbol(*mdl) {
                    Ok(sy) if sy == base[i] => {}
                    other => fail!("C14/restored-copy-shifts-chunks", "after decoding {b} symbols the coder was overwritten with a copy taken after {a} symbols; symbol #{i} then decodes as {other:?}, expected {}", base[i]),
                }
            }
            run.count("restores_from_copies", 1);
        }
        // e: the decoding iterators driven through adaptors that skip (nth / skip / step_by): a
        // skipped symbol still consumes its chunk
        {
            let Some(mut c) = build::<W, S, P>(&data, compressed) else {
                fail!("C14/undocumented-error", "fourth construction from the same data failed");
            };
            let j = rng.usize_in(1, 3);
            let got: Vec<Option<usize>> = match rng.below(3) {
                0 => c.decode_symbols(models.iter().take(m).copied()).skip(j).map(|r| r.ok()).collect(),
                1 => c.decode_symbols(models.iter().take(m).copied()).step_by(j + 1).map(|r| r.ok()).collect(),
                _ => c.try_decode_symbols(models.iter().take(m).map(|x| Ok::<_, ()>(*x))).skip(j).map(|r| r.ok()).collect(),
            };
            let expect_skip: Vec<Option<usize>> = base.iter().skip(j).map(|&x| Some(x)).collect();
            let expect_step: Vec<Option<usize>> = base.iter().step_by(j + 1).map(|&x| Some(x)).collect();
            if got != expect_skip && got != expect_step {
                fail!("C14/iterator-adaptor-shifts-chunks", "decode_symbols(..) driven through skip({j}) / step_by({}) yields {:?}; the symbols of the chunks are {:?}", j + 1, got, base);
            }
            run.count("iterator_adaptor_runs", 1);
        }
        // d3: word source with transient read failures (words come in the order a Vec would pop them)
        let mut src: Vec<Result<W, &'static str>> = data.iter().rev().map(|&w| Ok(w)).collect();
        let head_words = (S::NBITS / W::NBITS) as usize;
        let n_glitch = rng.usize_in(1, 3);
        for _ in 0..n_glitch {
            let at = rng.usize_in(head_words.min(src.len()), src.len());
            src.insert(at, Err("glitch"));
        }
        type Fc<W, S, const P: usize> = ChainCoder<W, S, FallibleIteratorReadWords<std::vec::IntoIter<Result<W, &'static str>>>, Vec<W>, P>;
        let built = if compressed { Fc::<W, S, P>::from_compressed(FallibleIteratorReadWords::new(src)).ok() } else { Fc::<W, S, P>::from_binary(FallibleIteratorReadWords::new(src)).ok() };
        if let Some(mut c) = built {
            let mut got: Vec<usize> = Vec::new();
            let mut glitches = 0u64;
            'outer: for (i, mdl) in models.iter().enumerate() {
                loop {
                    match c.decode_symbol(*mdl) {
                        Ok(sy) => {
                            got.push(sy);
                            break;
                        }
                        Err(CoderError::Backend(BackendError::Compressed(_))) => {
                            glitches += 1;
                            if glitches > 16 {
                                fail!("C14/undocumented-error", "more read failures reported than were injected");
                            }
                        }
                        Err(CoderError::Frontend(DecoderFrontendError::OutOfCompressedData)) => break 'outer,
                        Err(e) => fail!("C14/undocumented-error", "decode #{i} over a glitchy source returned {e:?}"),
                    }
                }
            }
            if got != base {
                let k = (0..got.len().min(base.len())).find(|&i| got[i] != base[i]);
                fail!("C14/failed-read-shifts-chunks", "with {glitches} transient read failures, {} symbols were decoded instead of {m}; first difference at {k:?} (retrying the failed decode)", got.len());
            }
            run.count("transient_read_failures", glitches);
        } else {
            run.count("glitch_during_construction", 1);
        }
    }
    run.count("bit_flips", flips_done);
    run.count("bit_flips_without_effect_on_chunks", flips_into_heads);
    if perturbed + flips_done >= 8 {
        run.nontrivial();
    }
    run.describe(|| format!("{desc} :: {m} chunks, {perturbed} model replacements, {flips_done} bit flips"));
}

/// "... never whether or when the coder runs out of data", across precision changes: the
/// compressed side is a bit budget. B = the number of 1-bit chunks a fresh coder yields; with
/// any schedule of precisions the coder must deliver symbols exactly as long as the bits
/// consumed so far plus the next precision fit into B (bits left over in the head when the
/// precision changes must not be lost or invented).
fn budget_case<W, S, Pr1, const P1: usize, Pr2, const P2: usize>(run: &mut Run, rng: &mut Rng)
where
    W: Num + Into<S> + AsPrimitive<Pr1> + AsPrimitive<Pr2>,
    S: Num + AsPrimitive<W>,
    Pr1: Num + Into<W>,
    Pr2: Num + Into<W>,
{
    run.count("bit_budget_cases", 1);
    run.h(7 << 56 | W::NBITS as u64 * 1000 + S::NBITS as u64 ^ (P1 as u64) << 20 ^ (P2 as u64) << 28);
    let data: Vec<W> = gen_chain_data(rng, if run.small { 8 } else { 24 }, false);
    for x in &data {
        run.h128(x.as_u());
    }
    let du: Vec<u128> = data.iter().map(|x| x.as_u()).collect();
    let desc = format!("ChainCoder<{},{}> from_binary data {:?}, precisions {P1} -> {P2} -> {P1}", W::NAME, S::NAME, du);
    run.note(|| desc.clone());
    let Some(c0) = build::<W, S, P1>(&data, false) else {
        run.count("construction_refused", 1);
        return;
    };
    // the budget, measured bit by bit on a copy
    let Ok(mut cb) = c0.clone().change_precision::<1>() else {
        run.count("budget_probe_refused", 1);
        return;
    };
    let mut budget = 0usize;
    while budget < 100_000 {
        match cb.decode_symbol(IdentityModel::<Pr1, 1>::new()) {
            Ok(_) => budget += 1,
            Err(CoderError::Frontend(DecoderFrontendError::OutOfCompressedData)) => break,
            Err(_) => return,
        }
    }
    macro_rules! fail {
        ($($arg:tt)*) => {{
            run.violation("locality", "C14/bit-budget", format!("{desc} :: budget {budget} bits :: {}", format!($($arg)*)));
            return;
        }};
    }
    let mut consumed = 0usize;
    macro_rules! phase {
        ($c:ident, $Pr:ty, $P:expr, $k:expr, $name:expr) => {
            for j in 0..$k {
                match $c.decode_symbol(IdentityModel::<$Pr, $P>::new()) {
                    Ok(_) => {
                        consumed += $P;
                        if consumed > budget {
                            fail!("{}: symbol #{j} at precision {} was delivered although only {} of the {budget} bits were left", $name, $P, budget + $P - consumed);
                        }
                    }
                    Err(CoderError::Frontend(DecoderFrontendError::OutOfCompressedData)) => {
                        if budget - consumed >= $P {
                            fail!("{}: out of data before symbol #{j} at precision {} although {} bits are left ({consumed} consumed)", $name, $P, budget - consumed);
                        }
                        run.count("bit_budget_exhaustions_checked", 1);
                        run.nontrivial();
                        return;
                    }
                    Err(e) => fail!("{}: symbol #{j} returned {e:?}", $name),
                }
            }
        };
    }
    let (k1, k2) = (rng.usize_in(0, 7), rng.usize_in(1, 5));
    let mut c = c0;
    phase!(c, Pr1, P1, k1, "first phase");
    let Ok(mut c) = c.change_precision::<P2>() else {
        run.count("precision_change_refused", 1);
        return;
    };
    phase!(c, Pr2, P2, k2, "second phase");
    let Ok(mut c) = c.change_precision::<P1>() else {
        run.count("precision_change_refused", 1);
        return;
    };
    phase!(c, Pr1, P1, 100_000usize, "third phase");
}

pub fn case(run: &mut Run, rng: &mut Rng) {
    if rng.chance(1, 6) {
        let combos: &[fn(&mut Run, &mut Rng)] = &[
            budget_case::<u8, u16, u8, 3, u8, 8>,
            budget_case::<u8, u16, u8, 8, u8, 5>,
            budget_case::<u8, u32, u8, 5, u8, 8>,
            budget_case::<u16, u32, u8, 5, u16, 16>,
            budget_case::<u16, u32, u16, 12, u8, 7>,
            budget_case::<u16, u64, u16, 9, u16, 16>,
            budget_case::<u32, u64, u16, 12, u32, 32>,
            budget_case::<u32, u64, u32, 24, u32, 31>,
        ];
        let k = rng.below(combos.len() as u64) as usize;
        return combos[k](run, rng);
    }
    let combos: &[fn(&mut Run, &mut Rng)] = &[
        combo::<u8, u16, u8, 8>,
        combo::<u8, u16, u8, 3>,
        combo::<u8, u32, u8, 5>,
        combo::<u8, u64, u8, 8>,
        combo::<u16, u32, u16, 12>,
        combo::<u16, u32, u16, 16>,
        combo::<u16, u64, u8, 7>,
        combo::<u32, u64, u32, 24>,
        combo::<u32, u64, u32, 32>,
        combo::<u32, u64, u16, 1>,
    ];
    let k = rng.below(combos.len() as u64) as usize;
    combos[k](run, rng)
}
