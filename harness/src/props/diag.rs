//! C18 (second half) — the information-theoretic diagnostics of a model equal their textbook
//! definitions evaluated on the model's exact fixed-point probabilities (obtained through
//! encoder queries / the quantile walk, NOT through `symbol_table`, so representation defects
//! of C05 do not leak into the reference) up to floating-point rounding.

use crate::modelcheck::*;
use crate::num::{pow2, Num};
use crate::prng::Rng;
use crate::props::c03::*;
use crate::report::Run;
use crate::table::TableModel;
use constriction::stream::model::*;
use core::fmt::Debug;
use num_traits::AsPrimitive;

struct Ref {
    /// exact probabilities q_i = p_i / 2^P
    q: Vec<f64>,
    prec: u32,
}

impl Ref {
    fn from_table<S>(t: &Table<S>, prec: u32) -> Self {
        let total = pow2(prec) as f64;
        Ref {
            q: t.rows.iter().map(|r| r.2 as f64 / total).collect(),
            prec,
        }
    }
    fn entropy(&self) -> (f64, f64) {
        let mut s = 0.0;
        let mut mag = 0.0;
        for &q in &self.q {
            let t = -q * q.log2();
            s += t;
            mag += t.abs();
        }
        (s, mag)
    }
    fn cross_entropy(&self, p: &[f64]) -> (f64, f64) {
        let mut s = 0.0;
        let mut mag = 0.0;
        for (&q, &p) in self.q.iter().zip(p) {
            let t = -p * q.log2();
            s += t;
            mag += t.abs();
        }
        (s, mag)
    }
    fn reverse_cross_entropy(&self, p: &[f64]) -> (f64, f64) {
        let mut s = 0.0;
        let mut mag = 0.0;
        for (&q, &p) in self.q.iter().zip(p) {
            let t = -q * p.log2();
            s += t;
            mag += t.abs();
        }
        (s, mag)
    }
    fn kl(&self, p: &[f64]) -> (f64, f64) {
        let mut s = 0.0;
        let mut mag = 0.0;
        for (&q, &p) in self.q.iter().zip(p) {
            if p != 0.0 {
                let t = p * (p.log2() - q.log2());
                s += t;
                mag += (p * p.log2()).abs() + (p * q.log2()).abs();
            }
        }
        (s, mag)
    }
    fn reverse_kl(&self, p: &[f64]) -> (f64, f64) {
        let mut s = 0.0;
        let mut mag = 0.0;
        for (&q, &p) in self.q.iter().zip(p) {
            let t = q * (q.log2() - p.log2());
            s += t;
            mag += (q * q.log2()).abs() + (q * p.log2()).abs();
        }
        (s, mag)
    }
}

fn gen_p(rng: &mut Rng, n: usize, allow_zero: bool) -> Vec<f64> {
    let mut v: Vec<f64> = (0..n)
        .map(|_| {
            if allow_zero && rng.chance(1, 5) {
                0.0
            } else {
                match rng.below(3) {
                    0 => rng.f64() + 1e-12,
                    1 => 10f64.powf(-rng.f64() * 12.0),
                    _ => 1.0,
                }
            }
        })
        .collect();
    if v.iter().all(|&x| x == 0.0) {
        v[0] = 1.0;
    }
    let s: f64 = v.iter().sum();
    for x in &mut v {
        *x /= s;
    }
    v
}

fn close(run: &mut Run, what: &str, desc: &str, got: f64, exp: (f64, f64), n: usize, prec: u32, eps: f64) -> bool {
    let tol = 64.0 * (n as f64 + 8.0) * eps * (exp.1 + prec as f64 + 1.0);
    run.count("diagnostic_values_compared", 1);
    if !(got - exp.0).abs().le(&tol) {
        run.violation(
            "diagnostic",
            &format!("C18/diagnostic/{what}"),
            format!("{desc} :: {what} = {got:e}, textbook value on the exact probabilities = {:e} (tolerance {tol:e})", exp.0),
        );
        return false;
    }
    true
}

/// All diagnostics of an iterable model against the reference table `t` (f64 and f32 variants
/// where the probability type allows).
fn check_iterable<'m, M, const P: usize>(run: &mut Run, rng: &mut Rng, m: &'m M, t: &Table<M::Symbol>, desc: &str) -> bool
where
    M: IterableEntropyModel<'m, P>,
    M::Symbol: Clone + Debug + PartialEq,
    M::Probability: Num + Into<f64>,
    f64: From<M::Probability>,
{
    let r = Ref::from_table(t, P as u32);
    let n = r.q.len();
    let e64 = f64::EPSILON;
    if !close(run, "entropy_base2", desc, m.entropy_base2::<f64>(), r.entropy(), n, r.prec, e64) {
        return false;
    }
    let p0 = gen_p(rng, n, true);
    let p1 = gen_p(rng, n, false);
    if !close(run, "cross_entropy_base2", desc, m.cross_entropy_base2::<f64>(p0.iter().copied()), r.cross_entropy(&p0), n, r.prec, e64) {
        return false;
    }
    if !close(run, "kl_divergence_base2", desc, m.kl_divergence_base2::<f64>(p0.iter().copied()), r.kl(&p0), n, r.prec, e64) {
        return false;
    }
    if !close(run, "reverse_cross_entropy_base2", desc, m.reverse_cross_entropy_base2::<f64>(p1.iter().copied()), r.reverse_cross_entropy(&p1), n, r.prec, e64) {
        return false;
    }
    if !close(run, "reverse_kl_divergence_base2", desc, m.reverse_kl_divergence_base2::<f64>(p1.iter().copied()), r.reverse_kl(&p1), n, r.prec, e64) {
        return false;
    }
    // floating point view: exact for P <= 53
    if P <= 52 {
        let total = pow2(P as u32) as f64;
        let mut k = 0;
        for (i, (s, c, p)) in m.floating_point_symbol_table::<f64>().enumerate() {
            k += 1;
            let Some(row) = t.rows.get(i) else {
                run.violation("diagnostic", "C18/diagnostic/floating_point_symbol_table", format!("{desc} :: floating_point_symbol_table yields more than {n} entries"));
                return false;
            };
            if s != row.0 || c != row.1 as f64 / total || p != row.2 as f64 / total {
                run.violation(
                    "diagnostic",
                    "C18/diagnostic/floating_point_symbol_table",
                    format!("{desc} :: floating_point_symbol_table entry {i} = ({s:?},{c:e},{p:e}), exact ({:?},{:e},{:e})", row.0, row.1 as f64 / total, row.2 as f64 / total),
                );
                return false;
            }
        }
        if k != n {
            run.violation("diagnostic", "C18/diagnostic/floating_point_symbol_table", format!("{desc} :: floating_point_symbol_table yields {k} of {n} entries"));
            return false;
        }
        run.count("diagnostic_values_compared", 1);
    }
    true
}

fn check_fpp<M, const P: usize>(run: &mut Run, m: &M, t: &Table<M::Symbol>, outside: Option<M::Symbol>, desc: &str) -> bool
where
    M: EncoderModel<P>,
    M::Symbol: Clone + Debug + PartialEq,
    M::Probability: Num + Into<f64>,
{
    if P > 52 {
        return true;
    }
    let total = pow2(P as u32) as f64;
    for row in t.rows.iter().take(64) {
        let g: f64 = m.floating_point_probability::<f64>(row.0.clone());
        if g != row.2 as f64 / total {
            run.violation("diagnostic", "C18/diagnostic/floating_point_probability", format!("{desc} :: floating_point_probability({:?}) = {g:e}, exact {:e}", row.0, row.2 as f64 / total));
            return false;
        }
    }
    if let Some(o) = outside {
        let g: f64 = m.floating_point_probability::<f64>(o.clone());
        if g != 0.0 {
            run.violation("diagnostic", "C18/diagnostic/floating_point_probability", format!("{desc} :: floating_point_probability({o:?}) = {g:e} for an out-of-support symbol"));
            return false;
        }
    }
    run.count("diagnostic_values_compared", 1);
    true
}

fn table_case<Pr, const P: usize>(run: &mut Run, rng: &mut Rng)
where
    Pr: Num + Into<f64>,
    f64: From<Pr>,
{
    run.count("diag_table_models", 1);
    let cdf = crate::table::gen_cdf(rng, P as u32, if run.small { 10 } else { 400 });
    for c in &cdf {
        run.h128(*c);
    }
    let n = cdf.len() - 1;
    let desc = format!("harness TableModel<{},{}> (default trait methods) cdf {:?}", Pr::NAME, P, if n < 30 { cdf.clone() } else { cdf[..30].to_vec() });
    let tm = TableModel::<Pr, P>::new(cdf.clone());
    let t = table_via_encoder::<_, P>(&tm, 0..n).expect("harness table");
    if !check_iterable::<_, P>(run, rng, &tm, &t, &desc) {
        return;
    }
    if !check_fpp::<_, P>(run, &tm, &t, Some(n + 3), &desc) {
        return;
    }
    // the same table as library models
    let probs: Vec<Pr> = t.rows.iter().map(|r| Pr::of(r.2)).collect();
    if let Ok(m) = ContiguousCategoricalEntropyModel::<Pr, Vec<Pr>, P>::from_nonzero_fixed_point_probabilities(probs.iter(), false) {
        let d = format!("ContiguousCategorical from {desc}");
        if !check_iterable::<_, P>(run, rng, &m, &t, &d) || !check_fpp::<_, P>(run, &m, &t, Some(n), &d) {
            return;
        }
        // the same diagnostics with the model type `&M` (the forwarding impl for references)
        let r = &m;
        if !check_iterable::<_, P>(run, rng, &r, &t, &format!("&({d})")) {
            return;
        }
        run.count("diag_models_through_reference", 1);
    }
    let labels: Vec<i32> = (0..n as i32).map(|i| 1000 - 3 * i).collect();
    let tl = Table { rows: t.rows.iter().zip(&labels).map(|(r, l)| (*l, r.1, r.2)).collect() };
    if let Ok(m) = NonContiguousCategoricalDecoderModel::<i32, Pr, Vec<(Pr, i32)>, P>::from_symbols_and_nonzero_fixed_point_probabilities(labels.iter().copied(), probs.iter(), false) {
        let d = format!("NonContiguousDecoder (specialised impls) from {desc}");
        if !check_iterable::<_, P>(run, rng, &m, &tl, &d) {
            return;
        }
        let r = &m;
        if !check_iterable::<_, P>(run, rng, &r, &tl, &format!("&({d})")) {
            return;
        }
    }
    if let Ok(m) = NonContiguousCategoricalEncoderModel::<i32, Pr, P>::from_symbols_and_nonzero_fixed_point_probabilities(labels.iter().copied(), probs.iter(), false) {
        let d = format!("NonContiguousEncoder::entropy_base2 from {desc}");
        let r = Ref::from_table(&tl, P as u32);
        if !close(run, "entropy_base2", &d, m.entropy_base2::<f64>(), r.entropy(), n, P as u32, f64::EPSILON) {
            return;
        }
        if !check_fpp::<_, P>(run, &m, &tl, Some(12345), &d) {
            return;
        }
    }
    run.nontrivial();
    run.describe(|| desc);
}

fn quant_diag<S, Pr, const P: usize>(run: &mut Run, rng: &mut Rng)
where
    S: SymT + AsPrimitive<Pr> + AsPrimitive<usize>,
    Pr: Num + Into<f64>,
    f64: AsPrimitive<Pr> + AsPrimitive<S> + From<Pr>,
{
    run.count("diag_quantized_models", 1);
    let qc = gen_quantized::<S, Pr, P>(rng, if run.small { 30 } else { 1500 });
    let (lo, hi) = (qc.lo, qc.hi);
    let desc = format!("LeakyQuantizer<f64,{},{},{}>({lo}..={hi}).quantize({})", S::SNAME, Pr::NAME, P, qc.model.inner().describe());
    run.h(hash_str(&desc));
    run.note(|| desc.clone());
    let model = &qc.model;
    let Ok(t) = table_via_encoder::<_, P>(model, (lo..=hi).map(sym_from::<S>)) else {
        return;
    };
    if cdf_precondition_holds(model.inner(), lo, hi).is_err() {
        return;
    }
    model.inner().reset();
    if !check_iterable::<_, P>(run, rng, model, &t, &desc) {
        return;
    }
    model.inner().reset();
    if !check_fpp::<_, P>(run, model, &t, None, &desc) {
        return;
    }
    run.nontrivial();
    run.describe(|| desc);
}

pub fn case(run: &mut Run, rng: &mut Rng) {
    let combos: &[fn(&mut Run, &mut Rng)] = &[
        table_case::<u8, 8>,
        table_case::<u8, 5>,
        table_case::<u16, 12>,
        table_case::<u16, 16>,
        table_case::<u32, 24>,
        table_case::<u32, 32>,
        quant_diag::<i32, u32, 24>,
        quant_diag::<i16, u16, 12>,
        quant_diag::<i8, u8, 8>,
        quant_diag::<u8, u16, 16>,
        quant_diag::<i32, u32, 32>,
    ];
    let k = rng.below(combos.len() as u64) as usize;
    combos[k](run, rng)
}
