//! C13 — chain coder: decoding then re-encoding restores the original data exactly.
//!
//! Oracles: word equality of the restored data for the three documented ways of handling the
//! remainders (continue in place / re-import the suffix only / re-import prefix ++ suffix), for
//! `from_binary`/`into_binary` and `from_compressed`/`into_compressed`, with precision changes
//! undone in reverse; exact error kinds and unchanged state on exhaustion; the documented head
//! invariant `2^(S-W-P) <= remainders < 2^(S-P)` after EVERY step (through the verif hook).

use crate::num::{mask, pow2, Num};
use crate::prng::Rng;
use crate::report::Run;
use crate::rangew::three_symbol_cdf;
use crate::table::*;
use constriction::stream::chain::{ChainCoder, DecoderFrontendError, EncoderFrontendError};
use constriction::stream::{Code, Decode, Encode};
use constriction::CoderError;
use num_traits::AsPrimitive;

type CC<W, S, const P: usize> = ChainCoder<W, S, Vec<W>, Vec<W>, P>;

pub fn gen_chain_data<W: Num>(rng: &mut Rng, max_len: usize, last_nonzero: bool) -> Vec<W> {
    let len = match rng.below(8) {
        0 => rng.usize_in(0, 3),
        _ => rng.usize_in(0, max_len),
    };
    let style = rng.below(5);
    let mut v: Vec<W> = (0..len)
        .map(|_| match style {
            0 => W::of(0),
            1 => W::of(rng.below(3) as u128),
            2 => W::of(mask(W::NBITS)),
            _ => W::of(rng.edgy(W::NBITS)),
        })
        .collect();
    if last_nonzero {
        if let Some(l) = v.last_mut() {
            // every count of leading zeros in the last word
            let lz = rng.below(W::NBITS as u64) as u32;
            let top = 1u128 << (W::NBITS - 1 - lz);
            *l = W::of(top | (rng.u128() & (top - 1)));
        }
    }
    v
}

fn wu<W: Num>(v: &[W]) -> Vec<u128> {
    v.iter().map(|x| x.as_u()).collect()
}

/// head invariant; returns false after reporting
fn heads_ok<W: Num, S: Num, const P: usize>(run: &mut Run, c: &CC<W, S, P>, when: &str, desc: &str) -> bool
where
    W: Into<S>,
    S: AsPrimitive<W>,
{
    let (ch, rh) = c.state().verif_parts();
    let (ch, rh) = (ch.as_u(), rh.as_u());
    let (s, w) = (S::NBITS, W::NBITS);
    run.count("head_invariant_checks", 1);
    if ch == 0 || rh < pow2(s - w - P as u32) || rh >= pow2(s - P as u32) {
        run.violation(
            "head-invariant",
            "C13/head-invariant",
            format!("{desc} :: {when}: heads (compressed {ch:#x}, remainders {rh:#x}) violate 2^(S-W-P) <= remainders < 2^(S-P) (W={w},S={s},P={P})"),
        );
        return false;
    }
    true
}

/// Decode up to k symbols with models from `zoo`; returns (model index, symbol) list. Checks the
/// exhaustion error and that a failed decode leaves the heads untouched.
fn decode_some<W: Num, S: Num, Pr: Num, const P: usize>(
    run: &mut Run,
    rng: &mut Rng,
    c: &mut CC<W, S, P>,
    zoo: &mut Vec<TableModel<Pr, P>>,
    k: usize,
    desc: &str,
) -> Option<Vec<(usize, usize)>>
where
    W: Into<S> + AsPrimitive<Pr>,
    S: AsPrimitive<W>,
    Pr: Into<W>,
{
    let mut out = Vec::new();
    let steer = rng.bool();
    for i in 0..k {
        let mut mi = rng.below(zoo.len() as u64) as usize;
        // Head steering (a state-observing adversary): read the next chunk q with an identity
        // model on a clone and the remainders head rh through the hook, then build a model whose
        // symbol around q has (cum, p) with rh * p + (q - cum) == T for a target T on or next to
        // a power of two that matters to the coder (word boundaries, the flush / refill bounds).
        if steer && zoo.len() < 400 && rng.chance(1, 3) {
            let mut probe = c.clone();
            if let Ok(q) = probe.decode_symbol(IdentityModel::<Pr, P>::new()) {
                let (_, rh) = c.state().verif_parts();
                let rh = rh.as_u();
                let (s, w) = (S::NBITS, W::NBITS);
                let total = pow2(P as u32);
                let ks = [w, 2 * w, s - P as u32, s - P as u32 - w, s - w, s - 1];
                let kk = ks[rng.below(ks.len() as u64) as usize];
                if kk < s && rh > 0 {
                    let t = pow2(kk).wrapping_add(rng.below(3) as u128).wrapping_sub(1);
                    for p in [t / rh, (t / rh).saturating_sub(1)] {
                        if p >= 1 && p < total {
                            if let Some(r) = rh.checked_mul(p).and_then(|x| t.checked_sub(x)) {
                                if r < p && r <= q && q - r + p <= total {
                                    if let Some((cdf, _target)) = three_symbol_cdf(q - r, p, P as u32) {
                                        zoo.push(TableModel::new(cdf));
                                        mi = zoo.len() - 1;
                                        run.count("head_steered_decodes", 1);
                                        break;
                                    }
                                }
                            }
                        }
                    }
                }
            }
        }
        let before = c.state().verif_parts();
        match c.decode_symbol(&zoo[mi]) {
            Ok(s) => {
                if s >= zoo[mi].n() {
                    run.violation("symbol-outside-model", "C13/symbol-outside-support", format!("{desc} :: decode #{i} returned {s}"));
                    return None;
                }
                out.push((mi, s));
                if !heads_ok(run, c, &format!("after decode #{i}"), desc) {
                    return None;
                }
            }
            Err(CoderError::Frontend(DecoderFrontendError::OutOfCompressedData)) => {
                run.count("out_of_compressed_data", 1);
                if c.state().verif_parts() != before {
                    run.violation("exhaustion", "C13/state-changed-by-failed-decode", format!("{desc} :: OutOfCompressedData at decode #{i} changed the heads"));
                    return None;
                }
                break;
            }
            Err(e) => {
                run.violation("exhaustion", "C13/undocumented-error", format!("{desc} :: decode #{i} returned {e:?}"));
                return None;
            }
        }
    }
    Some(out)
}

fn encode_back<W: Num, S: Num, Pr: Num, const P: usize>(
    run: &mut Run,
    c: &mut CC<W, S, P>,
    zoo: &[TableModel<Pr, P>],
    syms: &[(usize, usize)],
    desc: &str,
) -> bool
where
    W: Into<S> + AsPrimitive<Pr>,
    S: AsPrimitive<W>,
    Pr: Into<W>,
{
    // batch forms (the coder reverses the order itself); alternate with the per-symbol loop
    if !syms.is_empty() && (syms.len() + syms[0].1) % 3 == 0 {
        run.count("batch_reverse_encodes", 1);
        let same_model = syms.iter().all(|&(mi, _)| mi == syms[0].0);
        let r = if same_model {
            run.count("batch_iid_reverse_encodes", 1);
            c.encode_iid_symbols_reverse(syms.iter().map(|&(_, s)| s), &zoo[syms[0].0]).map_err(|e| format!("{e:?}"))
        } else if (syms.len() + syms[0].0) % 2 == 0 {
            c.encode_symbols_reverse(syms.iter().map(|&(mi, s)| (s, &zoo[mi]))).map_err(|e| format!("{e:?}"))
        } else {
            c.try_encode_symbols_reverse(syms.iter().map(|&(mi, s)| Ok::<_, ()>((s, &zoo[mi])))).map_err(|e| format!("{e:?}"))
        };
        if let Err(e) = r {
            run.violation("restore", "C13/re-encode-failed", format!("{desc} :: batch re-encoding of {} symbols failed with {e}", syms.len()));
            return false;
        }
        let _ = (c.is_whole(), Decode::<P>::maybe_exhausted(c), Encode::<P>::maybe_full(c));
        return heads_ok(run, c, "after batch re-encoding", desc);
    }
    for (i, &(mi, s)) in syms.iter().enumerate().rev() {
        if let Err(e) = c.encode_symbol(s, &zoo[mi]) {
            run.violation("restore", "C13/re-encode-failed", format!("{desc} :: re-encoding symbol #{i} failed with {e:?}"));
            return false;
        }
        if !heads_ok(run, c, &format!("after re-encoding #{i}"), desc) {
            return false;
        }
    }
    true
}

fn zoo<Pr: Num, const P: usize>(rng: &mut Rng) -> Vec<TableModel<Pr, P>> {
    (0..rng.usize_in(1, 4)).map(|_| TableModel::new(gen_cdf(rng, P as u32, 40))).collect()
}

/// single precision, all three remainder-handling ways, binary or compressed framing
fn plain<W, S, Pr, const P: usize>(run: &mut Run, rng: &mut Rng)
where
    W: Num + Into<S> + AsPrimitive<Pr>,
    S: Num + AsPrimitive<W>,
    Pr: Num + Into<W>,
{
    run.count("plain_cases", 1);
    run.h(1 << 60 | W::NBITS as u64 * 1000 + S::NBITS as u64 ^ (P as u64) << 20);
    let compressed_framing = rng.bool();
    let data: Vec<W> = gen_chain_data(rng, if run.small { 10 } else { 60 }, compressed_framing);
    for x in &data {
        run.h128(x.as_u());
    }
    let way = rng.below(3);
    let desc = format!("ChainCoder<{},{},P={}> {} data {:?} way {}", W::NAME, S::NAME, P, if compressed_framing { "from_compressed" } else { "from_binary" }, wu(&data), ["in-place", "suffix-only", "prefix++suffix"][way as usize]);
    run.note(|| desc.clone());
    let built = if compressed_framing { CC::<W, S, P>::from_compressed(data.clone()) } else { CC::<W, S, P>::from_binary(data.clone()) };
    let mut c = match built {
        Ok(c) => c,
        Err(CoderError::Frontend(back)) => {
            // too short to initialise (or zero last word): the data must come back untouched...
            run.count("construction_refused", 1);
            let _ = back;
            return;
        }
        Err(CoderError::Backend(e)) => match e {},
    };
    if !heads_ok(run, &c, "after construction", &desc) {
        return;
    }
    let mut z = zoo::<Pr, P>(rng);
    let k = rng.usize_in(0, if run.small { 20 } else if run.thorough() { 300 } else { 100 });
    let Some(syms) = decode_some(run, rng, &mut c, &mut z, k, &desc) else { return };
    for &(mi, s) in &syms {
        run.h(s as u64 ^ (mi as u64) << 40);
    }
    macro_rules! fail {
        ($sig:expr, $($arg:tt)*) => {{
            run.violation("restore", $sig, format!("{desc} :: decoded {} symbols :: {}", syms.len(), format!($($arg)*)));
            return;
        }};
    }
    let restored: Vec<W> = match way {
        0 => {
            if !encode_back(run, &mut c, &z, &syms, &desc) {
                return;
            }
            let r = if compressed_framing { c.into_compressed() } else { c.into_binary() };
            match r {
                Ok((rem, comp)) => {
                    if !rem.is_empty() {
                        fail!("C13/restore-mismatch", "in place: remainders not consumed: {:?}", wu(&rem));
                    }
                    comp
                }
                Err(_) => fail!("C13/restore-mismatch", "in place: final export refused (coder not whole)"),
            }
        }
        _ => {
            let (prefix, suffix) = match c.into_remainders() {
                Ok(x) => x,
                Err(e) => match e {},
            };
            // the prefix must be an unaltered prefix of the data
            if prefix[..] != data[..prefix.len().min(data.len())] || prefix.len() > data.len() {
                fail!("C13/prefix-altered", "remainders prefix {:?} is not a prefix of the data", wu(&prefix));
            }
            let import: Vec<W> = if way == 1 {
                suffix.clone()
            } else {
                let mut v = prefix.clone();
                v.extend_from_slice(&suffix);
                v
            };
            let mut c2 = match CC::<W, S, P>::from_remainders(import) {
                Ok(c) => c,
                Err(_) => fail!("C13/from_remainders-refused", "from_remainders refused the exported remainders (suffix {:?})", wu(&suffix)),
            };
            if !heads_ok(run, &c2, "after from_remainders", &desc) {
                return;
            }
            if !encode_back(run, &mut c2, &z, &syms, &desc) {
                return;
            }
            let r = if compressed_framing { c2.into_compressed() } else { c2.into_binary() };
            match r {
                Ok((rec_prefix, rec_suffix)) => {
                    let mut v = if way == 1 {
                        if !rec_prefix.is_empty() {
                            fail!("C13/restore-mismatch", "suffix-only: recovered prefix not empty: {:?}", wu(&rec_prefix));
                        }
                        prefix.clone()
                    } else {
                        rec_prefix
                    };
                    v.extend_from_slice(&rec_suffix);
                    v
                }
                Err(_) => fail!("C13/restore-mismatch", "final export refused (coder not whole)"),
            }
        }
    };
    if restored != data {
        fail!("C13/restore-mismatch", "restored {:?}", wu(&restored));
    }
    run.count("restored", 1);
    run.count("symbols", syms.len() as u64);
    if !syms.is_empty() {
        run.nontrivial();
    }

    // over-encoding: keep encoding until the coder runs out of remainders; the error must be
    // OutOfRemainders and must leave the heads untouched
    if rng.chance(1, 3) {
        let mut c = match if compressed_framing { CC::<W, S, P>::from_compressed(data.clone()) } else { CC::<W, S, P>::from_binary(data.clone()) } {
            Ok(c) => c,
            Err(_) => return,
        };
        for i in 0..2000 {
            let m = &z[rng.below(z.len() as u64) as usize];
            let s = pick_symbol(rng, &m.cdf);
            let before = c.state().verif_parts();
            match c.encode_symbol(s, m) {
                Ok(()) => {
                    if !heads_ok(run, &c, &format!("after over-encoding #{i}"), &desc) {
                        return;
                    }
                }
                Err(CoderError::Frontend(EncoderFrontendError::OutOfRemainders)) => {
                    if c.state().verif_parts() != before {
                        fail!("C13/state-changed-by-failed-encode", "OutOfRemainders at over-encode #{i} changed the heads");
                    }
                    run.count("out_of_remainders", 1);
                    break;
                }
                Err(e) => fail!("C13/undocumented-error", "over-encode #{i} returned {e:?}"),
            }
        }
    }
    run.describe(|| desc);
}

/// precision schedule PA -> PB -> PA with the changes undone in reverse. A macro because
/// `increase_precision` / `decrease_precision` carry compile-time assertions on the direction.
macro_rules! schedule_fn {
    ($name:ident, $fwd:ident, $bwd:ident, $label:expr) => {
        fn $name<W, S, Pr, const PA: usize, const PB: usize>(run: &mut Run, rng: &mut Rng)
        where
            W: Num + Into<S> + AsPrimitive<Pr>,
            S: Num + AsPrimitive<W>,
            Pr: Num + Into<W>,
        {
            run.count("precision_schedule_cases", 1);
            run.h(2 << 60 | W::NBITS as u64 * 1000 + S::NBITS as u64 ^ (PA as u64) << 20 ^ (PB as u64) << 30);
            let data: Vec<W> = gen_chain_data(rng, if run.small { 12 } else { 60 }, false);
            for x in &data {
                run.h128(x.as_u());
            }
            let via_remainders = rng.bool();
            let desc = format!("ChainCoder<{},{}> precision {PA}->{PB}->{PA} ({}) data {:?} via_remainders={via_remainders}", W::NAME, S::NAME, $label, wu(&data));
            run.note(|| desc.clone());
            let Ok(mut c) = CC::<W, S, PA>::from_binary(data.clone()) else {
                run.count("construction_refused", 1);
                return;
            };
            let mut za = zoo::<Pr, PA>(rng);
            let mut zb = zoo::<Pr, PB>(rng);
            let kmax = if run.small { 8 } else { 40 };
            let k1 = rng.usize_in(0, kmax);
            let Some(s1) = decode_some(run, rng, &mut c, &mut za, k1, &desc) else { return };
            // PA -> PB
            let mut c = match c.$fwd::<PB>().map_err(|e| format!("{e:?}")) {
                Ok(c) => c,
                Err(e) => {
                    // decreasing may legitimately need remainders that are not there yet
                    if e.contains("OutOfRemainders") {
                        run.count("precision_change_out_of_remainders", 1);
                    } else {
                        run.violation("restore", "C13/precision-change-failed", format!("{desc} :: change to precision {PB} failed: {e}"));
                    }
                    return;
                }
            };
            if !heads_ok(run, &c, "after first precision change", &desc) {
                return;
            }
            let k2 = rng.usize_in(0, kmax);
            let Some(s2) = decode_some(run, rng, &mut c, &mut zb, k2, &desc) else { return };
            // optionally go through the remainders export / import at precision PB
            let mut c = if via_remainders {
                let (prefix, suffix) = match c.into_remainders() {
                    Ok(x) => x,
                    Err(e) => match e {},
                };
                let mut v = prefix;
                v.extend_from_slice(&suffix);
                match CC::<W, S, PB>::from_remainders(v) {
                    Ok(c) => c,
                    Err(_) => {
                        run.violation("restore", "C13/from_remainders-refused", format!("{desc} :: from_remainders refused the exported remainders"));
                        return;
                    }
                }
            } else {
                c
            };
            if !encode_back(run, &mut c, &zb, &s2, &desc) {
                return;
            }
            // undo: PB -> PA
            let mut c = match c.$bwd::<PA>().map_err(|e| format!("{e:?}")) {
                Ok(c) => c,
                Err(e) => {
                    run.violation("restore", "C13/precision-change-failed", format!("{desc} :: undoing the precision change failed after {}+{} symbols: {e}", s1.len(), s2.len()));
                    return;
                }
            };
            if !heads_ok(run, &c, "after undoing the precision change", &desc) {
                return;
            }
            if !encode_back(run, &mut c, &za, &s1, &desc) {
                return;
            }
            match c.into_binary() {
                Ok((rec_prefix, rec_suffix)) => {
                    let mut v = rec_prefix;
                    v.extend_from_slice(&rec_suffix);
                    if v != data {
                        run.violation("restore", "C13/restore-mismatch-after-precision-change", format!("{desc} :: decoded {}+{} symbols; restored {:?}", s1.len(), s2.len(), wu(&v)));
                        return;
                    }
                }
                Err(_) => {
                    run.violation("restore", "C13/restore-mismatch-after-precision-change", format!("{desc} :: final into_binary refused (coder not whole) after {}+{} symbols", s1.len(), s2.len()));
                    return;
                }
            }
            run.count("restored", 1);
            run.count("precision_changes", 2);
            run.count("symbols", (s1.len() + s2.len()) as u64);
            run.nontrivial();
            run.describe(|| desc);
        }
    };
}

schedule_fn!(schedule_any, change_precision, change_precision, "change_precision");
schedule_fn!(schedule_up, increase_precision, decrease_precision, "increase_precision then decrease_precision");
schedule_fn!(schedule_down, decrease_precision, increase_precision, "decrease_precision then increase_precision");

pub fn case(run: &mut Run, rng: &mut Rng) {
    let combos: &[fn(&mut Run, &mut Rng)] = &[
        plain::<u8, u16, u8, 8>,
        plain::<u8, u16, u8, 3>,
        plain::<u8, u32, u8, 8>,
        plain::<u8, u32, u8, 1>,
        plain::<u8, u64, u8, 7>,
        plain::<u16, u32, u16, 12>,
        plain::<u16, u32, u16, 16>,
        plain::<u16, u64, u16, 15>,
        plain::<u32, u64, u32, 24>,
        plain::<u32, u64, u32, 32>,
        plain::<u32, u64, u8, 8>,
        plain::<u64, u128, u32, 24>,
        plain::<u64, u128, u64, 40>,
        plain::<u32, u128, u32, 32>,
        plain::<u16, u128, u16, 9>,
        schedule_any::<u8, u16, u8, 3, 8>,
        schedule_any::<u8, u16, u8, 8, 3>,
        schedule_up::<u8, u32, u8, 5, 8>,
        schedule_down::<u8, u64, u8, 8, 1>,
        schedule_up::<u16, u32, u16, 12, 16>,
        schedule_down::<u16, u32, u16, 16, 9>,
        schedule_any::<u16, u64, u16, 8, 15>,
        schedule_up::<u32, u64, u32, 24, 32>,
        schedule_down::<u32, u64, u32, 32, 12>,
        schedule_any::<u32, u64, u32, 24, 24>,
        schedule_up::<u8, u16, u8, 8, 8>,
    ];
    let k = rng.below(combos.len() as u64) as usize;
    combos[k](run, rng)
}

// ==========================================================================================
// Dense single-step sweep through the cfg(constriction_verif) constructors: for (u8,u16) at
// P = 3 every admissible pair of head registers x every next compressed word x every (cum,p)
// whose interval contains the resulting quantile; at P = 8 (= Word bits, the special-cased
// path) every remainders head x every word x a boundary-biased sample of (cum,p). decode then
// encode must restore heads and both backends exactly, with the head invariant in between.

fn sweep_one<const P: usize>(run: &mut Run, c: u8, r: u16, word: u8, cum: u128, p: u128) -> bool {
    use constriction::stream::chain::ChainCoderHeads;
    let Some((cdf, target)) = crate::rangew::three_symbol_cdf(cum, p, P as u32) else { return true };
    let model = TableModel::<u8, P>::new(cdf);
    let heads = ChainCoderHeads::<u8, u16, P>::verif_from_parts(core::num::NonZeroU8::new(c).unwrap(), r);
    let mut coder = CC::<u8, u16, P>::verif_from_raw_parts(vec![0xA5, word], Vec::new(), heads);
    let sym = match coder.decode_symbol(&model) {
        Ok(s) => s,
        Err(e) => {
            run.violation("sweep", "C13/sweep-decode-error", format!("P={P} heads=({c:#x},{r:#x}) word={word:#x} cum={cum} p={p}: decode_symbol returned {e:?}"));
            return false;
        }
    };
    if sym != target {
        // the quantile fell into a neighbouring symbol of the three-symbol model: fine, any
        // symbol must round-trip
    }
    let (_, rh) = coder.state().verif_parts();
    if (rh as u128) < pow2(16 - 8 - P as u32) || (rh as u128) >= pow2(16 - P as u32) {
        run.violation("sweep", "C13/head-invariant", format!("P={P} heads=({c:#x},{r:#x}) word={word:#x} cum={cum} p={p}: after decode remainders head {rh:#x} violates the invariant"));
        return false;
    }
    if let Err(e) = coder.encode_symbol(sym, &model) {
        run.violation("sweep", "C13/sweep-encode-error", format!("P={P} heads=({c:#x},{r:#x}) word={word:#x} cum={cum} p={p}: re-encoding symbol {sym} returned {e:?}"));
        return false;
    }
    let (cb, rb, h) = coder.verif_into_raw_parts();
    if cb != vec![0xA5, word] || !rb.is_empty() || h.verif_parts() != (c, r) {
        run.violation(
            "sweep",
            "C13/sweep-not-restored",
            format!("P={P} heads=({c:#x},{r:#x}) word={word:#x} cum={cum} p={p} sym={sym}: after decode+encode compressed={cb:?} remainders={rb:?} heads={:?}", h.verif_parts()),
        );
        return false;
    }
    true
}

pub fn sweep(run: &mut Run) {
    if run.small {
        return;
    }
    let shard = run.shard;
    let nsh = run.nshards;
    let thorough = run.thorough();
    let mut rng = Rng::new(run.seed ^ 0xC4A1 ^ shard);
    let mut steps = 0u64;
    // ---- P = 3
    let (lo, hi) = (pow2(16 - 8 - 3) as u16, pow2(16 - 3) as u16);
    let mut r = lo + shard as u16;
    let stride = if thorough { nsh as u16 } else { nsh as u16 * 8 };
    while r < hi {
        for c in 1..=255u8 {
            // when the compressed head holds fewer than P bits a word is read; otherwise it is not
            let words: &[u8] = if (c as u128) < pow2(3) { &[0x00, 0xFF, 0x5A, 0xC3] } else { &[0x3C] };
            for &word in words {
                // quantile the coder will see
                let q: u128 = if (c as u128) < pow2(3) { (word as u128) % 8 } else { (c as u128) % 8 };
                for p in 1..8u128 {
                    let cmin = q.saturating_sub(p - 1);
                    for cum in cmin..=q.min(8 - p) {
                        if !sweep_one::<3>(run, c, r, word, cum, p) {
                            return;
                        }
                        steps += 1;
                    }
                }
            }
        }
        run.heartbeat();
        r = match r.checked_add(stride) {
            Some(x) => x,
            None => break,
        };
    }
    // ---- P = 8 (PRECISION == Word::BITS): compressed head is always 1
    let mut r = 1u16 + shard as u16;
    while r < 256 {
        for word in 0..=255u8 {
            let q = word as u128;
            for _ in 0..(if thorough { 40 } else { 6 }) {
                let p = 1 + rng.edgy(8) % 255;
                let cmin = q.saturating_sub(p - 1);
                let cmax = q.min(256 - p);
                if cmin > cmax {
                    continue;
                }
                let cum = cmin + rng.below128(cmax - cmin + 1);
                if !sweep_one::<8>(run, 1, r, word, cum, p) {
                    return;
                }
                steps += 1;
            }
        }
        run.heartbeat();
        r += nsh as u16;
    }
    run.count("single_step_sweep_steps", steps);
}
