//! `ref_model`: exact integer checker of entropy-model validity (C03) used by C03, C05, C09,
//! C10, C18 and C19. Works on the public model traits only.
//!
//! A model over a declared support is *valid* iff, walking the support in order,
//!   * every symbol returns `Some((cum, p))`, `p >= 1`;
//!   * `cum` equals the running sum of the previous probabilities (first is 0);
//!   * the total is exactly 2^P (so with >= 2 symbols no probability is "one");
//!   * symbols outside the support return `None`;
//!   * `quantile_function(q) == (s, cum_s, p_s)` for the symbol whose interval contains q.

use crate::num::{pow2, Num};
use crate::prng::Rng;
use constriction::stream::model::{DecoderModel, EncoderModel, IterableEntropyModel};
use constriction::NonZeroBitArray;
use core::fmt::Debug;

#[derive(Clone, Debug, PartialEq)]
pub struct Table<Sym> {
    /// (symbol, left cumulative, probability), exact (not wrapped)
    pub rows: Vec<(Sym, u128, u128)>,
}

#[derive(Debug)]
pub struct Bad {
    pub sig: &'static str,
    pub detail: String,
}

fn bad<T>(sig: &'static str, detail: String) -> Result<T, Bad> {
    Err(Bad { sig, detail })
}

/// Walk the declared support through the encoder view.
pub fn table_via_encoder<M, const P: usize>(
    model: &M,
    support: impl Iterator<Item = M::Symbol>,
) -> Result<Table<M::Symbol>, Bad>
where
    M: EncoderModel<P>,
    M::Symbol: Clone + Debug,
    M::Probability: Num,
{
    let total = pow2(P as u32);
    let mut rows = Vec::new();
    let mut sum: u128 = 0;
    for s in support {
        match model.left_cumulative_and_probability(s.clone()) {
            None => {
                return bad(
                    "in-support-symbol-has-zero-probability",
                    format!("symbol {s:?} of the declared support returns None (running sum {sum} of {total})"),
                )
            }
            Some((c, p)) => {
                let c = c.as_u();
                let p = p.get().as_u();
                if p == 0 {
                    return bad("zero-probability", format!("symbol {s:?} has probability 0 (cum {c})"));
                }
                if c != sum {
                    return bad(
                        "gap-or-overlap",
                        format!("symbol {s:?}: left cumulative {c} but the preceding symbols sum to {sum} (p={p}, total {total})"),
                    );
                }
                sum += p;
                if sum > total {
                    return bad("total-exceeds-one", format!("after symbol {s:?} the running sum {sum} exceeds 2^P = {total}"));
                }
                rows.push((s, c, p));
            }
        }
    }
    if sum != total {
        return bad("total-not-one", format!("probabilities of the {} support symbols sum to {sum}, not 2^P = {total}", rows.len()));
    }
    if rows.len() < 2 {
        return bad("probability-one", format!("single symbol {:?} carries the whole mass", rows.first().map(|r| &r.0)));
    }
    Ok(Table { rows })
}

/// Symbols outside the support must be impossible.
pub fn check_outside<M, const P: usize>(model: &M, outside: impl Iterator<Item = M::Symbol>) -> Result<u64, Bad>
where
    M: EncoderModel<P>,
    M::Symbol: Clone + Debug,
    M::Probability: Num,
{
    let mut n = 0;
    for s in outside {
        n += 1;
        if let Some((c, p)) = model.left_cumulative_and_probability(s.clone()) {
            return bad(
                "out-of-support-symbol-accepted",
                format!("symbol {s:?} outside the support returns Some(({}, {}))", c.as_u(), p.get().as_u()),
            );
        }
    }
    Ok(n)
}

/// Check the quantile function against a table: every quantile if 2^P <= `exhaustive_limit`,
/// otherwise both edges of every symbol, +-1 around them and `extra` random quantiles.
pub fn check_quantiles<M, const P: usize>(
    model: &M,
    table: &Table<M::Symbol>,
    rng: &mut Rng,
    exhaustive_limit: u128,
    extra: usize,
) -> Result<u64, Bad>
where
    M: DecoderModel<P>,
    M::Symbol: Clone + Debug + PartialEq,
    M::Probability: Num,
{
    let total = pow2(P as u32);
    let mut probes = 0u64;
    let check = |q: u128, idx: usize| -> Result<(), Bad> {
        let (s, c, p) = model.quantile_function(<M::Probability as Num>::of(q));
        let (es, ec, ep) = &table.rows[idx];
        if &s != es || c.as_u() != *ec || p.get().as_u() != *ep {
            return bad(
                "quantile-function-disagrees",
                format!(
                    "quantile_function({q}) = ({s:?}, {}, {}), but the encoder view puts {q} into symbol {es:?} with (cum {ec}, p {ep})",
                    c.as_u(),
                    p.get().as_u()
                ),
            );
        }
        Ok(())
    };
    if total <= exhaustive_limit {
        for (idx, (_, c, p)) in table.rows.iter().enumerate() {
            for q in *c..(*c + *p) {
                check(q, idx)?;
                probes += 1;
            }
        }
    } else {
        // limit the number of symbols probed for huge tables
        let n = table.rows.len();
        let stride = (n / 3000).max(1);
        let mut idx = 0;
        while idx < n {
            let (_, c, p) = &table.rows[idx];
            check(*c, idx)?;
            check(*c + *p - 1, idx)?;
            check(*c + *p / 2, idx)?;
            if *p > 2 {
                check(*c + 1, idx)?;
                check(*c + *p - 2, idx)?;
            }
            probes += 5;
            idx += if stride > 1 { 1 + rng.below(2 * stride as u64 - 1) as usize } else { 1 };
        }
        // always the last symbol
        let (_, c, p) = &table.rows[n - 1];
        check(*c, n - 1)?;
        check(*c + *p - 1, n - 1)?;
        for _ in 0..extra {
            let q = rng.below128(total);
            let idx = table.rows.partition_point(|r| r.1 <= q) - 1;
            check(q, idx)?;
            probes += 1;
        }
    }
    Ok(probes)
}

/// Build the table of a decoder-only model by walking its quantile function from 0 to 2^P.
pub fn table_via_decoder<M, const P: usize>(model: &M, max_symbols: usize) -> Result<Table<M::Symbol>, Bad>
where
    M: DecoderModel<P>,
    M::Symbol: Clone + Debug + PartialEq,
    M::Probability: Num,
{
    let total = pow2(P as u32);
    let mut rows = Vec::new();
    let mut q: u128 = 0;
    while q < total {
        let (s, c, p) = model.quantile_function(<M::Probability as Num>::of(q));
        let (c, p) = (c.as_u(), p.get().as_u());
        if p == 0 {
            return bad("zero-probability", format!("quantile_function({q}) reports probability 0 for {s:?}"));
        }
        if c != q {
            return bad("gap-or-overlap", format!("quantile_function({q}) = ({s:?}, cum {c}, p {p}): left cumulative is not {q}"));
        }
        // right edge and middle must map to the same entry
        for qq in [c + p - 1, c + p / 2] {
            if qq >= total {
                return bad("total-exceeds-one", format!("symbol {s:?} at cum {c} with p {p} extends beyond 2^P = {total}"));
            }
            let (s2, c2, p2) = model.quantile_function(<M::Probability as Num>::of(qq));
            if s2 != s || c2.as_u() != c || p2.get().as_u() != p {
                return bad(
                    "quantile-function-inconsistent",
                    format!("quantile_function({q}) = ({s:?},{c},{p}) but quantile_function({qq}) = ({s2:?},{},{})", c2.as_u(), p2.get().as_u()),
                );
            }
        }
        rows.push((s, c, p));
        q = c + p;
        if rows.len() > max_symbols {
            return bad("too-many-symbols", format!("more than {max_symbols} symbols while walking the quantile function"));
        }
    }
    if q != total {
        return bad("total-exceeds-one", format!("walk ended at {q} != 2^P = {total}"));
    }
    if rows.len() < 2 {
        return bad("probability-one", "single symbol carries the whole mass".to_string());
    }
    Ok(Table { rows })
}

/// The table as reported by `symbol_table()`, with the same structural checks.
pub fn table_via_iter<'m, M, const P: usize>(model: &'m M, max_symbols: usize) -> Result<Table<M::Symbol>, Bad>
where
    M: IterableEntropyModel<'m, P>,
    M::Symbol: Clone + Debug,
    M::Probability: Num,
{
    let total = pow2(P as u32);
    let mut rows = Vec::new();
    let mut sum = 0u128;
    for (s, c, p) in model.symbol_table() {
        let (c, p) = (c.as_u(), p.get().as_u());
        if p == 0 {
            return bad("zero-probability", format!("symbol_table reports probability 0 for {s:?}"));
        }
        if c != sum {
            return bad("symbol-table-gap-or-overlap", format!("symbol_table: {s:?} has cum {c}, running sum {sum}"));
        }
        sum += p;
        rows.push((s, c, p));
        if rows.len() > max_symbols {
            return bad("too-many-symbols", format!("symbol_table yields more than {max_symbols} entries"));
        }
    }
    if sum != total {
        return bad("symbol-table-total-not-one", format!("symbol_table sums to {sum}, not {total}"));
    }
    Ok(Table { rows })
}

pub fn first_difference<S: Debug + PartialEq>(a: &Table<S>, b: &Table<S>) -> Option<String> {
    if a.rows.len() != b.rows.len() {
        return Some(format!("{} entries vs {} entries", a.rows.len(), b.rows.len()));
    }
    for (i, (x, y)) in a.rows.iter().zip(&b.rows).enumerate() {
        if x != y {
            return Some(format!("entry {i}: ({:?}, cum {}, p {}) vs ({:?}, cum {}, p {})", x.0, x.1, x.2, y.0, y.1, y.2));
        }
    }
    None
}
