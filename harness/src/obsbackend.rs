//! Observing / faulty backends implementing the library's public backend traits: the boundary
//! between a coder and its sink is where "what was emitted, when" is unambiguous.

use constriction::backends::{BoundedReadWords, ReadWords, WriteWords};
use constriction::{Pos, PosSeek, Stack};
use core::convert::Infallible;

/// Stack-like sink that counts writes and reads.
#[derive(Clone, Debug, Default)]
pub struct CountBackend<W> {
    pub v: Vec<W>,
    pub writes: u64,
    pub reads: u64,
}

impl<W> WriteWords<W> for CountBackend<W> {
    type WriteError = Infallible;
    fn write(&mut self, word: W) -> Result<(), Infallible> {
        self.v.push(word);
        self.writes += 1;
        Ok(())
    }
    fn maybe_full(&self) -> bool {
        false
    }
}

impl<W> ReadWords<W, Stack> for CountBackend<W> {
    type ReadError = Infallible;
    fn read(&mut self) -> Result<Option<W>, Infallible> {
        self.reads += 1;
        Ok(self.v.pop())
    }
    fn maybe_exhausted(&self) -> bool {
        self.v.is_empty()
    }
}

impl<W> BoundedReadWords<W, Stack> for CountBackend<W> {
    fn remaining(&self) -> usize {
        self.v.len()
    }
}

impl<W> PosSeek for CountBackend<W> {
    type Position = usize;
}
impl<W> Pos for CountBackend<W> {
    fn pos(&self) -> usize {
        self.v.len()
    }
}

#[derive(Debug, Clone, PartialEq, Eq)]
pub struct InjectedFault;

/// Stack-like sink whose k-th write (1-based, counted over its lifetime) fails WITHOUT storing
/// the word; optionally with a bounded capacity.
#[derive(Clone, Debug)]
pub struct FaultyBackend<W> {
    pub v: Vec<W>,
    pub writes_attempted: u64,
    pub fail_at: Option<u64>,
    pub capacity: Option<usize>,
    pub faults_hit: u64,
}

impl<W> Default for FaultyBackend<W> {
    fn default() -> Self {
        Self::new(None, None)
    }
}

impl<W> FaultyBackend<W> {
    pub fn new(fail_at: Option<u64>, capacity: Option<usize>) -> Self {
        FaultyBackend {
            v: Vec::new(),
            writes_attempted: 0,
            fail_at,
            capacity,
            faults_hit: 0,
        }
    }
}

impl<W> WriteWords<W> for FaultyBackend<W> {
    type WriteError = InjectedFault;
    fn write(&mut self, word: W) -> Result<(), InjectedFault> {
        self.writes_attempted += 1;
        if Some(self.writes_attempted) == self.fail_at {
            self.faults_hit += 1;
            return Err(InjectedFault);
        }
        if let Some(c) = self.capacity {
            if self.v.len() >= c {
                self.faults_hit += 1;
                return Err(InjectedFault);
            }
        }
        self.v.push(word);
        Ok(())
    }
}

impl<W> ReadWords<W, Stack> for FaultyBackend<W> {
    type ReadError = Infallible;
    fn read(&mut self) -> Result<Option<W>, Infallible> {
        Ok(self.v.pop())
    }
    fn maybe_exhausted(&self) -> bool {
        self.v.is_empty()
    }
}

impl<W> BoundedReadWords<W, Stack> for FaultyBackend<W> {
    fn remaining(&self) -> usize {
        self.v.len()
    }
}

/// A minimal user-written seekable word source (queue semantics): implements exactly what the
/// traits require and relies on every provided default (in particular the `maybe_exhausted`
/// hint, whose default is the uninformative `true`).
#[derive(Clone, Debug)]
pub struct PlainSeekSource<W> {
    pub v: Vec<W>,
    pub pos: usize,
}

impl<W: Clone> ReadWords<W, constriction::Queue> for PlainSeekSource<W> {
    type ReadError = Infallible;
    fn read(&mut self) -> Result<Option<W>, Infallible> {
        let r = self.v.get(self.pos).cloned();
        if r.is_some() {
            self.pos += 1;
        }
        Ok(r)
    }
}

impl<W> PosSeek for PlainSeekSource<W> {
    type Position = usize;
}

impl<W> Pos for PlainSeekSource<W> {
    fn pos(&self) -> usize {
        self.pos
    }
}

impl<W> constriction::Seek for PlainSeekSource<W> {
    fn seek(&mut self, pos: usize) -> Result<(), ()> {
        if pos > self.v.len() {
            return Err(());
        }
        self.pos = pos;
        Ok(())
    }
}
