//! cvmon — runtime monitors for `constriction` (see /verif/DESIGN.md).
//!
//! usage: cvmon <PROP> <flavour> <tier> <seed> <shard> <nshards> <ncases> [--from I] [--only I]
//!              [--trace] [--hashes FILE]
//! Output: JSON lines on stdout (violations, then one summary). With --trace a beacon line
//! `@ <index>` is written to stderr before every case (used by the driver to locate aborts).

#![allow(clippy::type_complexity, clippy::too_many_arguments)]

mod dists;
mod modelcheck;
mod num;
mod obsbackend;
mod prng;
mod props;
mod rangew;
mod refimpl;
mod report;
mod table;

use report::{Run, Tier};
use std::io::Write;
use std::panic::{catch_unwind, AssertUnwindSafe};

pub struct PropDef {
    pub id: &'static str,
    pub tag: u64,
    /// one generated case
    pub case: fn(&mut Run, &mut prng::Rng),
    /// deterministic extra work (sweeps, golden vectors); run once per shard after the cases
    pub extra: Option<fn(&mut Run)>,
    /// whether a panic escaping a case is itself a violation of the property
    pub panic_is_violation: bool,
}

pub fn last_panic() -> String {
    LAST_PANIC.with(|p| p.borrow().clone())
}

thread_local! {
    static LAST_PANIC: std::cell::RefCell<String> = const { std::cell::RefCell::new(String::new()) };
}

fn main() {
    let args: Vec<String> = std::env::args().collect();
    if args.len() < 8 {
        eprintln!("usage: cvmon <PROP> <flavour> <tier> <seed> <shard> <nshards> <ncases> [--from I] [--only I] [--trace] [--hashes FILE]");
        std::process::exit(2);
    }
    let prop_id = args[1].as_str();
    let flavour = args[2].clone();
    let tier = if args[3] == "thorough" {
        Tier::Thorough
    } else {
        Tier::Quick
    };
    let seed: u64 = args[4].parse().expect("seed");
    let shard: u64 = args[5].parse().expect("shard");
    let nshards: u64 = args[6].parse().expect("nshards");
    let ncases: u64 = args[7].parse().expect("ncases");
    let mut from = 0u64;
    let mut only: Option<u64> = None;
    let mut trace = false;
    let mut hashes: Option<String> = None;
    let mut no_extra = false;
    let mut i = 8;
    while i < args.len() {
        match args[i].as_str() {
            "--from" => {
                from = args[i + 1].parse().expect("from");
                i += 1;
            }
            "--only" => {
                only = Some(args[i + 1].parse().expect("only"));
                i += 1;
            }
            "--trace" => trace = true,
            "--no-extra" => no_extra = true,
            "--hashes" => {
                hashes = Some(args[i + 1].clone());
                i += 1;
            }
            other => {
                eprintln!("unknown argument {other}");
                std::process::exit(2);
            }
        }
        i += 1;
    }

    let def = props::registry()
        .into_iter()
        .find(|d| d.id == prop_id)
        .unwrap_or_else(|| {
            eprintln!("unknown property {prop_id}");
            std::process::exit(2);
        });

    std::panic::set_hook(Box::new(|info| {
        let msg = if let Some(s) = info.payload().downcast_ref::<&str>() {
            s.to_string()
        } else if let Some(s) = info.payload().downcast_ref::<String>() {
            s.clone()
        } else {
            "<non-string panic>".to_string()
        };
        let loc = info
            .location()
            .map(|l| format!("{}:{}", l.file(), l.line()))
            .unwrap_or_default();
        if msg.contains("unsafe precondition") || msg.contains("cannot unwind") || msg.contains("misaligned pointer") || msg.contains("null pointer dereference") {
            // about to abort (std's unsafe-precondition checks use non-unwinding panics):
            // leave the evidence on stderr for the driver's abort classifier
            eprintln!("NON-UNWINDING PANIC: {msg} @ {loc}");
            eprintln!("{}", std::backtrace::Backtrace::force_capture());
        }
        LAST_PANIC.with(|p| *p.borrow_mut() = format!("{msg} @ {loc}"));
    }));

    let mut run = Run::new(def.id, seed, shard, nshards, tier, flavour);
    run.trace = trace;
    if run.flavour != "miri" {
        spawn_hang_watchdog(def.id, run.flavour.clone(), seed, shard, nshards);
    }
    let (lo, hi) = match only {
        Some(k) => (k, k + 1),
        None => (from, ncases),
    };
    for index in lo..hi {
        if trace {
            eprintln!("@ {index}");
            let _ = std::io::stderr().flush();
        }
        let cs = prng::case_seed(seed, def.tag, shard, index);
        let mut rng = prng::Rng::new(cs);
        run.begin_case(index);
        let r = catch_unwind(AssertUnwindSafe(|| (def.case)(&mut run, &mut rng)));
        if r.is_err() {
            let msg = LAST_PANIC.with(|p| p.borrow().clone());
            run.panics_observed += 1;
            let ub = is_ub_check_panic(&msg);
            let overflow = is_ub_or_overflow_panic(&msg) && !ub;
            if def.panic_is_violation || ub || is_harness_side(&msg) {
                let mut sig = panic_sig(&msg);
                // root-cause tag attached by the workload to the current case, if any
                let note = report::LAST_NOTE.lock().map(|g| g.clone()).unwrap_or_default();
                if let Some(i) = note.rfind("{{sig:") {
                    if let Some(j) = note[i..].find("}}") {
                        sig = format!("{sig}/{}", &note[i + 6..i + j]);
                    }
                }
                let kind = if ub || overflow { "ub-panic" } else { "panic" };
                run.violation(kind, &sig, format!("{msg} :: {}", note.chars().take(1200).collect::<String>()));
            } else if overflow {
                // properties whose statement allows a panic as a form of failure (C19, C20's
                // abuse of invalid raw parts): an overflow *panic* is still a panic; counted
                run.count("overflow_panics_on_invalid_input", 1);
            }
        }
        run.end_case();
    }
    if only.is_none() && !no_extra {
        if let Some(extra) = def.extra {
            if trace {
                eprintln!("@ extra");
            }
            run.begin_case(u64::MAX);
            let r = catch_unwind(AssertUnwindSafe(|| extra(&mut run)));
            if r.is_err() {
                let msg = LAST_PANIC.with(|p| p.borrow().clone());
                let sig = panic_sig(&msg);
                run.violation("panic-in-extra", &sig, msg);
            }
        }
    }
    run.finish(hashes.as_deref());
}

/// Arithmetic-overflow panics and bounds panics inside the library are C20-class events in
/// every property ("arithmetic that is only correct because release builds wrap").
pub fn is_ub_check_panic(msg: &str) -> bool {
    msg.contains("unsafe precondition") || msg.contains("cannot unwind") || msg.contains("misaligned pointer") || msg.contains("null pointer dereference")
}

pub fn is_ub_or_overflow_panic(msg: &str) -> bool {
    msg.contains("attempt to ") && msg.contains("overflow")
        || msg.contains("unsafe precondition")
        || msg.contains("attempt to divide by zero")
        || msg.contains("attempt to shift")
}

/// A panic raised by the harness's own assertions (oracle disagreement written as assert!).
fn is_harness_side(msg: &str) -> bool {
    msg.contains("harness/src/") || msg.contains("harness bug")
}

pub fn panic_sig(msg: &str) -> String {
    // location without line number: file + first words of message
    let (m, loc) = match msg.rsplit_once(" @ ") {
        Some((m, l)) => (m, l),
        None => (msg, ""),
    };
    let file = loc.split(':').next().unwrap_or("");
    let file = file.rsplit("/src/").next().unwrap_or(file);
    let words: Vec<&str> = m.split_whitespace().take(6).collect();
    format!("panic/{}/{}", file, words.join("_"))
}

/// CPU seconds consumed by this process so far (Linux: utime+stime from /proc/self/stat).
fn cpu_seconds() -> Option<f64> {
    let s = std::fs::read_to_string("/proc/self/stat").ok()?;
    let rest = s.rsplit_once(") ")?.1;
    let f: Vec<&str> = rest.split_whitespace().collect();
    let ut: f64 = f.get(11)?.parse().ok()?;
    let st: f64 = f.get(12)?.parse().ok()?;
    Some((ut + st) / 100.0)
}

/// A single case normally takes micro- to milliseconds. If one case burns more than
/// HANG_CPU_SECONDS of *CPU time* (not wall-clock: robust on a loaded machine) it is reported
/// as non-termination and the process exits with status 3; the driver restarts after it.
const HANG_CPU_SECONDS: f64 = 60.0;

fn spawn_hang_watchdog(prop: &'static str, flavour: String, seed: u64, shard: u64, nshards: u64) {
    use std::sync::atomic::Ordering;
    std::thread::spawn(move || {
        let mut last_index = u64::MAX;
        let mut last_hb = 0u64;
        let mut cpu_at_change = cpu_seconds().unwrap_or(0.0);
        loop {
            std::thread::sleep(std::time::Duration::from_millis(500));
            let idx = report::CUR_INDEX.load(Ordering::SeqCst);
            let hb = report::HEARTBEAT.load(Ordering::Relaxed);
            let Some(cpu) = cpu_seconds() else { return };
            if idx != last_index || hb != last_hb {
                last_hb = hb;
                last_index = idx;
                cpu_at_change = cpu;
                continue;
            }
            if cpu - cpu_at_change > HANG_CPU_SECONDS {
                let note = report::LAST_NOTE.lock().map(|g| g.clone()).unwrap_or_default();
                let idx_s = if idx == u64::MAX { "\"extra\"".to_string() } else { idx.to_string() };
                println!(
                    "{{\"type\":\"violation\",\"prop\":\"{}\",\"flavour\":\"{}\",\"seed\":{},\"shard\":{},\"nshards\":{},\"index\":{},\"kind\":\"hang\",\"sig\":\"hang/{}\",\"detail\":\"case consumed more than {} CPU seconds without finishing (non-termination); last note: {}\"}}",
                    prop, report::json_escape(&flavour), seed, shard, nshards, idx_s, prop, HANG_CPU_SECONDS, report::json_escape(&note)
                );
                let _ = std::io::stdout().flush();
                std::process::exit(3);
            }
        }
    });
}
