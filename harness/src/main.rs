//! cvmon — runtime monitors for `constriction` (see /verif/DESIGN.md).
//!
//! usage: cvmon <PROP> <flavour> <tier> <seed> <shard> <nshards> <ncases> [--from I] [--only I]
//!              [--trace] [--hashes FILE]
//! Output: JSON lines on stdout (violations, then one summary). With --trace a beacon line
//! `@ <index>` is written to stderr before every case (used by the driver to locate aborts).

#![allow(clippy::type_complexity, clippy::too_many_arguments)]

mod num;
mod obsbackend;
mod prng;
mod props;
mod rangew;
mod refimpl;
mod report;
mod table;

use report::{Run, Tier};
use std::io::Write;
use std::panic::{catch_unwind, AssertUnwindSafe};

pub struct PropDef {
    pub id: &'static str,
    pub tag: u64,
    /// one generated case
    pub case: fn(&mut Run, &mut prng::Rng),
    /// deterministic extra work (sweeps, golden vectors); run once per shard after the cases
    pub extra: Option<fn(&mut Run)>,
    /// whether a panic escaping a case is itself a violation of the property
    pub panic_is_violation: bool,
}

thread_local! {
    static LAST_PANIC: std::cell::RefCell<String> = const { std::cell::RefCell::new(String::new()) };
}

fn main() {
    let args: Vec<String> = std::env::args().collect();
    if args.len() < 8 {
        eprintln!("usage: cvmon <PROP> <flavour> <tier> <seed> <shard> <nshards> <ncases> [--from I] [--only I] [--trace] [--hashes FILE]");
        std::process::exit(2);
    }
    let prop_id = args[1].as_str();
    let flavour = args[2].clone();
    let tier = if args[3] == "thorough" {
        Tier::Thorough
    } else {
        Tier::Quick
    };
    let seed: u64 = args[4].parse().expect("seed");
    let shard: u64 = args[5].parse().expect("shard");
    let nshards: u64 = args[6].parse().expect("nshards");
    let ncases: u64 = args[7].parse().expect("ncases");
    let mut from = 0u64;
    let mut only: Option<u64> = None;
    let mut trace = false;
    let mut hashes: Option<String> = None;
    let mut no_extra = false;
    let mut i = 8;
    while i < args.len() {
        match args[i].as_str() {
            "--from" => {
                from = args[i + 1].parse().expect("from");
                i += 1;
            }
            "--only" => {
                only = Some(args[i + 1].parse().expect("only"));
                i += 1;
            }
            "--trace" => trace = true,
            "--no-extra" => no_extra = true,
            "--hashes" => {
                hashes = Some(args[i + 1].clone());
                i += 1;
            }
            other => {
                eprintln!("unknown argument {other}");
                std::process::exit(2);
            }
        }
        i += 1;
    }

    let def = props::registry()
        .into_iter()
        .find(|d| d.id == prop_id)
        .unwrap_or_else(|| {
            eprintln!("unknown property {prop_id}");
            std::process::exit(2);
        });

    std::panic::set_hook(Box::new(|info| {
        let msg = if let Some(s) = info.payload().downcast_ref::<&str>() {
            s.to_string()
        } else if let Some(s) = info.payload().downcast_ref::<String>() {
            s.clone()
        } else {
            "<non-string panic>".to_string()
        };
        let loc = info
            .location()
            .map(|l| format!("{}:{}", l.file(), l.line()))
            .unwrap_or_default();
        LAST_PANIC.with(|p| *p.borrow_mut() = format!("{msg} @ {loc}"));
    }));

    let mut run = Run::new(def.id, seed, shard, nshards, tier, flavour);
    let (lo, hi) = match only {
        Some(k) => (k, k + 1),
        None => (from, ncases),
    };
    for index in lo..hi {
        if trace {
            eprintln!("@ {index}");
            let _ = std::io::stderr().flush();
        }
        let cs = prng::case_seed(seed, def.tag, shard, index);
        let mut rng = prng::Rng::new(cs);
        run.begin_case(index);
        let r = catch_unwind(AssertUnwindSafe(|| (def.case)(&mut run, &mut rng)));
        if r.is_err() {
            let msg = LAST_PANIC.with(|p| p.borrow().clone());
            run.panics_observed += 1;
            if def.panic_is_violation || is_ub_or_overflow_panic(&msg) || is_harness_side(&msg) {
                let sig = panic_sig(&msg);
                run.violation("panic", &sig, msg);
            }
        }
        run.end_case();
    }
    if only.is_none() && !no_extra {
        if let Some(extra) = def.extra {
            if trace {
                eprintln!("@ extra");
            }
            run.begin_case(u64::MAX);
            let r = catch_unwind(AssertUnwindSafe(|| extra(&mut run)));
            if r.is_err() {
                let msg = LAST_PANIC.with(|p| p.borrow().clone());
                let sig = panic_sig(&msg);
                run.violation("panic-in-extra", &sig, msg);
            }
        }
    }
    run.finish(hashes.as_deref());
}

/// Arithmetic-overflow panics and bounds panics inside the library are C20-class events in
/// every property ("arithmetic that is only correct because release builds wrap").
fn is_ub_or_overflow_panic(msg: &str) -> bool {
    msg.contains("attempt to ") && msg.contains("overflow")
        || msg.contains("unsafe precondition")
        || msg.contains("attempt to divide by zero")
        || msg.contains("attempt to shift")
}

/// A panic raised by the harness's own assertions (oracle disagreement written as assert!).
fn is_harness_side(msg: &str) -> bool {
    msg.contains("harness/src/") || msg.contains("harness bug")
}

pub fn panic_sig(msg: &str) -> String {
    // location without line number: file + first words of message
    let (m, loc) = match msg.rsplit_once(" @ ") {
        Some((m, l)) => (m, l),
        None => (msg, ""),
    };
    let file = loc.split(':').next().unwrap_or("");
    let file = file.rsplit("/src/").next().unwrap_or(file);
    let words: Vec<&str> = m.split_whitespace().take(6).collect();
    format!("panic/{}/{}", file, words.join("_"))
}
