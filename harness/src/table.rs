//! `TableModel`: the harness's own, deliberately dumb entropy model over an explicit cumulative
//! table. It shares no code with the library's models, so coder properties can be decided
//! independently of model defects, and adversaries can request any `(cumulative, probability)`.
//!
//! Plus `model_enum!`: a runtime-selectable set of `(Probability type, PRECISION)` pairs per
//! word type, which is what allows the fixed-point precision to change from symbol to symbol
//! inside one history (the coder methods are generic over `PRECISION`).

use crate::num::{pow2, Num};
use crate::prng::Rng;
use constriction::stream::model::{DecoderModel, EncoderModel, EntropyModel, IterableEntropyModel};
use constriction::BitArray;
use core::borrow::Borrow;
use core::marker::PhantomData;
use std::rc::Rc;

#[derive(Clone, Debug)]
pub struct TableModel<Pr: Num, const P: usize> {
    /// cdf[0] = 0 < cdf[1] < ... < cdf[n] = 2^P (exact, not wrapped)
    pub cdf: Rc<Vec<u128>>,
    _p: PhantomData<Pr>,
}

impl<Pr: Num, const P: usize> TableModel<Pr, P> {
    pub fn new(cdf: Vec<u128>) -> Self {
        assert!(P as u32 <= Pr::NBITS && P > 0);
        assert!(cdf.len() >= 3, "need >= 2 symbols");
        assert_eq!(cdf[0], 0);
        assert_eq!(*cdf.last().unwrap(), pow2(P as u32));
        for w in cdf.windows(2) {
            assert!(w[0] < w[1]);
        }
        TableModel {
            cdf: Rc::new(cdf),
            _p: PhantomData,
        }
    }
    #[inline(always)]
    pub fn n(&self) -> usize {
        self.cdf.len() - 1
    }
    #[inline(always)]
    pub fn cp(&self, sym: usize) -> (u128, u128) {
        (self.cdf[sym], self.cdf[sym + 1] - self.cdf[sym])
    }
    #[inline(always)]
    pub fn lookup(&self, q: u128) -> usize {
        // last index i with cdf[i] <= q
        self.cdf.partition_point(|&c| c <= q) - 1
    }
}

impl<Pr: Num, const P: usize> EntropyModel<P> for TableModel<Pr, P> {
    type Symbol = usize;
    type Probability = Pr;
}

impl<Pr: Num, const P: usize> EncoderModel<P> for TableModel<Pr, P> {
    #[inline(always)]
    fn left_cumulative_and_probability(
        &self,
        symbol: impl Borrow<usize>,
    ) -> Option<(Pr, <Pr as BitArray>::NonZero)> {
        let s = *symbol.borrow();
        if s >= self.n() {
            return None;
        }
        let (c, p) = self.cp(s);
        Some((Pr::of(c), Pr::nz(p)))
    }
}

impl<Pr: Num, const P: usize> DecoderModel<P> for TableModel<Pr, P> {
    #[inline(always)]
    fn quantile_function(&self, quantile: Pr) -> (usize, Pr, <Pr as BitArray>::NonZero) {
        let q = quantile.as_u();
        assert!(q < pow2(P as u32), "quantile out of range handed to model");
        let s = self.lookup(q);
        let (c, p) = self.cp(s);
        (s, Pr::of(c), Pr::nz(p))
    }
}

impl<'m, Pr: Num, const P: usize> IterableEntropyModel<'m, P> for TableModel<Pr, P> {
    fn symbol_table(
        &'m self,
    ) -> impl Iterator<Item = (usize, Pr, <Pr as BitArray>::NonZero)> {
        (0..self.n()).map(move |s| {
            let (c, p) = self.cp(s);
            (s, Pr::of(c), Pr::nz(p))
        })
    }
}

/// Identity model: 2^P symbols of probability 1 each; symbol == quantile. Needs no table.
#[derive(Clone, Copy, Debug, Default)]
pub struct IdentityModel<Pr: Num, const P: usize>(PhantomData<Pr>);

impl<Pr: Num, const P: usize> IdentityModel<Pr, P> {
    pub fn new() -> Self {
        IdentityModel(PhantomData)
    }
}
impl<Pr: Num, const P: usize> EntropyModel<P> for IdentityModel<Pr, P> {
    type Symbol = u128;
    type Probability = Pr;
}
impl<Pr: Num, const P: usize> EncoderModel<P> for IdentityModel<Pr, P> {
    fn left_cumulative_and_probability(
        &self,
        symbol: impl Borrow<u128>,
    ) -> Option<(Pr, <Pr as BitArray>::NonZero)> {
        let s = *symbol.borrow();
        if s >= pow2(P as u32) {
            None
        } else {
            Some((Pr::of(s), Pr::nz(1)))
        }
    }
}
impl<Pr: Num, const P: usize> DecoderModel<P> for IdentityModel<Pr, P> {
    fn quantile_function(&self, quantile: Pr) -> (u128, Pr, <Pr as BitArray>::NonZero) {
        (quantile.as_u(), quantile, Pr::nz(1))
    }
}

// ------------------------------------------------------------------------------------------
// cdf generators

/// Random well-formed cdf for precision `p` with at most `max_n` symbols (at least 2).
pub fn gen_cdf(rng: &mut Rng, p: u32, max_n: usize) -> Vec<u128> {
    let total = pow2(p);
    if total == 2 {
        return vec![0, 1, 2];
    }
    let max_n = (max_n as u128).min(total).max(2) as usize;
    let style = rng.below(12);
    let mut cuts: Vec<u128> = Vec::new();
    match style {
        0 => {
            // two symbols: 1 and 2^P - 1
            cuts.push(1);
        }
        1 => {
            // two symbols: 2^P - 1 and 1
            cuts.push(total - 1);
        }
        2 => {
            // many symbols of probability 1 at the start, rest in one big symbol
            let k = rng.usize_in(1, max_n - 1) as u128;
            for i in 1..=k {
                cuts.push(i);
            }
        }
        3 => {
            // big symbol first, then symbols of probability 1
            let k = rng.usize_in(1, max_n - 1) as u128;
            for i in 0..k {
                cuts.push(total - 1 - i);
            }
        }
        4 => {
            // (near) uniform
            let n = rng.usize_in(2, max_n) as u128;
            for i in 1..n {
                cuts.push(i * total / n);
            }
        }
        5 => {
            // geometric
            let mut c = total;
            for _ in 0..(max_n - 1) {
                c /= 2;
                if c == 0 {
                    break;
                }
                cuts.push(c);
            }
        }
        6 => {
            // all symbols probability 1 if that fits, else dense prefix
            if total as usize <= max_n && total <= 4096 {
                for i in 1..total {
                    cuts.push(i);
                }
            } else {
                for i in 1..(max_n as u128) {
                    cuts.push(i);
                }
            }
        }
        _ => {
            let n = rng.usize_in(2, max_n);
            for _ in 0..(n - 1) {
                let c = if rng.chance(1, 4) {
                    rng.edgy(p) % total
                } else {
                    rng.below128(total)
                };
                cuts.push(c);
            }
        }
    }
    cuts.retain(|&c| c > 0 && c < total);
    cuts.sort_unstable();
    cuts.dedup();
    if cuts.is_empty() {
        cuts.push(total / 2);
    }
    let mut cdf = Vec::with_capacity(cuts.len() + 2);
    cdf.push(0);
    cdf.extend(cuts);
    cdf.push(total);
    cdf
}

/// Pick a symbol of a cdf, biased towards extreme-probability symbols.
pub fn pick_symbol(rng: &mut Rng, cdf: &[u128]) -> usize {
    let n = cdf.len() - 1;
    match rng.below(8) {
        0 => 0,
        1 => n - 1,
        2 => {
            // least probable
            (0..n).min_by_key(|&i| cdf[i + 1] - cdf[i]).unwrap()
        }
        3 => {
            // most probable
            (0..n).max_by_key(|&i| cdf[i + 1] - cdf[i]).unwrap()
        }
        4 | 5 => {
            // by probability
            let q = rng.below128(*cdf.last().unwrap());
            cdf.partition_point(|&c| c <= q) - 1
        }
        _ => rng.below(n as u64) as usize,
    }
}

// ------------------------------------------------------------------------------------------
// Runtime-selectable (Probability, PRECISION) sets per word type.

use constriction::backends::{ReadWords, WriteWords};
use constriction::stream::queue::{RangeDecoder, RangeEncoder};
use constriction::stream::stack::AnsCoder;
use constriction::stream::{Decode, Encode, TryCodingError};
use constriction::{CoderError, DefaultEncoderFrontendError, Queue, Stack};
use num_traits::AsPrimitive;

pub type EncErr<E> = CoderError<DefaultEncoderFrontendError, E>;

#[derive(Clone, Copy, Debug, PartialEq, Eq)]
pub enum EncForm {
    Loop,
    Symbols,
    SymbolsReverse,
    TrySymbols,
    TrySymbolsReverse,
    Iid,
    IidReverse,
}

#[derive(Clone, Copy, Debug, PartialEq, Eq)]
pub enum DecForm {
    Loop,
    Symbols,
    TrySymbols,
    Iid,
    /// `decode_symbols(..).step_by(n)`: the skipped symbols are decoded and discarded by the
    /// iterator (reported as `SKIPPED`), the coder must end up where the loop ends up
    SymbolsStepBy(usize),
    /// `try_decode_symbols(..).skip(n)`
    TrySymbolsSkip(usize),
    /// `decode_iid_symbols(..)`, taking every element with `nth(n)`
    IidNth(usize),
    /// `decode_iid_symbols(..).count()`: everything is decoded and discarded
    IidCount,
    /// `decode_symbols(..).last()`
    SymbolsLast,
}

/// placeholder for a symbol that an iterator adaptor decoded and threw away
pub const SKIPPED: usize = usize::MAX;

/// Outcome of a batch encode, flattened to something comparable across forms.
#[derive(Clone, Debug, PartialEq, Eq)]
pub enum BatchOutcome {
    Ok,
    Impossible,
    Backend,
    ModelError,
}

pub trait ModelSet: Clone + core::fmt::Debug + Sized {
    type W: Num;
    /// (PRECISION, Probability bits) of every variant.
    const PRECS: &'static [(u32, u32)];
    fn from_cdf(variant: usize, cdf: Vec<u128>) -> Self;
    fn variant(&self) -> usize;
    fn prec(&self) -> u32;
    fn cdf(&self) -> &[u128];
    fn n(&self) -> usize {
        self.cdf().len() - 1
    }
    fn cp(&self, sym: usize) -> (u128, u128) {
        let c = self.cdf();
        (c[sym], c[sym + 1] - c[sym])
    }
    fn lookup(&self, q: u128) -> usize {
        self.cdf().partition_point(|&c| c <= q) - 1
    }

    fn ans_encode<S, B>(&self, c: &mut AnsCoder<Self::W, S, B>, sym: usize) -> Result<(), EncErr<B::WriteError>>
    where
        S: BitArray + AsPrimitive<Self::W>,
        Self::W: Into<S>,
        B: WriteWords<Self::W>;

    fn ans_decode<S, B>(&self, c: &mut AnsCoder<Self::W, S, B>) -> Result<usize, CoderError<core::convert::Infallible, B::ReadError>>
    where
        S: BitArray + AsPrimitive<Self::W>,
        Self::W: Into<S>,
        B: ReadWords<Self::W, Stack>;

    /// Batch encode `items` (all models must be of the same variant; for the iid forms the
    /// same model) in the given form. `fail_at`: for the try-forms, the iterator yields a
    /// model error at that item index.
    fn ans_encode_many<S, B>(
        c: &mut AnsCoder<Self::W, S, B>,
        items: &[(usize, &Self)],
        form: EncForm,
        fail_at: Option<usize>,
    ) -> BatchOutcome
    where
        S: BitArray + AsPrimitive<Self::W>,
        Self::W: Into<S>,
        B: WriteWords<Self::W>;

    fn ans_decode_many<S, B>(
        c: &mut AnsCoder<Self::W, S, B>,
        models: &[&Self],
        form: DecForm,
    ) -> Vec<usize>
    where
        S: BitArray + AsPrimitive<Self::W>,
        Self::W: Into<S>,
        B: ReadWords<Self::W, Stack>;

    fn range_encode<S, B>(&self, c: &mut RangeEncoder<Self::W, S, B>, sym: usize) -> Result<(), EncErr<B::WriteError>>
    where
        S: BitArray + AsPrimitive<Self::W>,
        Self::W: Into<S>,
        B: WriteWords<Self::W>;

    fn range_decode<S, B>(
        &self,
        c: &mut RangeDecoder<Self::W, S, B>,
    ) -> Result<usize, CoderError<constriction::stream::queue::DecoderFrontendError, B::ReadError>>
    where
        S: BitArray + AsPrimitive<Self::W>,
        Self::W: Into<S>,
        B: ReadWords<Self::W, Queue>;
}

fn flatten_enc<E>(r: Result<(), EncErr<E>>) -> BatchOutcome {
    match r {
        Ok(()) => BatchOutcome::Ok,
        Err(CoderError::Frontend(DefaultEncoderFrontendError::ImpossibleSymbol)) => BatchOutcome::Impossible,
        Err(CoderError::Backend(_)) => BatchOutcome::Backend,
    }
}

fn flatten_try<E>(r: Result<(), TryCodingError<EncErr<E>, ()>>) -> BatchOutcome {
    match r {
        Ok(()) => BatchOutcome::Ok,
        Err(TryCodingError::InvalidEntropyModel(())) => BatchOutcome::ModelError,
        Err(TryCodingError::CodingError(e)) => flatten_enc(Err(e)),
    }
}

/// Generic worker used by the macro below (one instantiation per variant).
pub fn ans_encode_many_impl<W, S, B, Pr, const P: usize>(
    c: &mut AnsCoder<W, S, B>,
    items: &[(usize, &TableModel<Pr, P>)],
    form: EncForm,
    fail_at: Option<usize>,
) -> BatchOutcome
where
    W: Num + Into<S> + AsPrimitive<Pr>,
    S: BitArray + AsPrimitive<W>,
    B: WriteWords<W>,
    Pr: Num + Into<W>,
{
    match form {
        EncForm::Loop => {
            for (s, m) in items {
                let r = flatten_enc(c.encode_symbol(*s, *m));
                if r != BatchOutcome::Ok {
                    return r;
                }
            }
            BatchOutcome::Ok
        }
        EncForm::Symbols => flatten_enc(c.encode_symbols(items.iter().map(|(s, m)| (*s, *m)))),
        EncForm::SymbolsReverse => {
            flatten_enc(c.encode_symbols_reverse(items.iter().map(|(s, m)| (*s, *m))))
        }
        EncForm::TrySymbols => flatten_try(c.try_encode_symbols(
            items.iter().enumerate().map(|(i, (s, m))| {
                if Some(i) == fail_at {
                    Err(())
                } else {
                    Ok((*s, *m))
                }
            }),
        )),
        EncForm::TrySymbolsReverse => flatten_try(c.try_encode_symbols_reverse(
            items.iter().enumerate().map(|(i, (s, m))| {
                if Some(i) == fail_at {
                    Err(())
                } else {
                    Ok((*s, *m))
                }
            }),
        )),
        EncForm::Iid => {
            let m = items[0].1;
            flatten_enc(c.encode_iid_symbols(items.iter().map(|(s, _)| *s), m))
        }
        EncForm::IidReverse => {
            let m = items[0].1;
            flatten_enc(c.encode_iid_symbols_reverse(items.iter().map(|(s, _)| *s), m))
        }
    }
}

pub fn ans_decode_many_impl<W, S, B, Pr, const P: usize>(
    c: &mut AnsCoder<W, S, B>,
    models: &[&TableModel<Pr, P>],
    form: DecForm,
) -> Vec<usize>
where
    W: Num + Into<S> + AsPrimitive<Pr>,
    S: BitArray + AsPrimitive<W>,
    B: ReadWords<W, Stack>,
    Pr: Num + Into<W>,
{
    match form {
        DecForm::Loop => models
            .iter()
            .map(|m| c.decode_symbol(*m).expect("ANS decode failed"))
            .collect(),
        DecForm::Symbols => c
            .decode_symbols(models.iter().copied())
            .map(|r| r.expect("ANS decode failed"))
            .collect(),
        DecForm::TrySymbols => c
            .try_decode_symbols(models.iter().map(|m| Ok::<_, ()>(*m)))
            .map(|r| r.expect("ANS decode failed"))
            .collect(),
        DecForm::Iid => c
            .decode_iid_symbols(models.len(), models[0])
            .map(|r| r.expect("ANS decode failed"))
            .collect(),
        DecForm::SymbolsStepBy(step) => {
            let ys: Vec<usize> = c.decode_symbols(models.iter().copied()).step_by(step).map(|r| r.expect("ANS decode failed")).collect();
            let mut out = vec![SKIPPED; models.len()];
            for (i, y) in ys.into_iter().enumerate() {
                out[i * step] = y;
            }
            out
        }
        DecForm::TrySymbolsSkip(j) => {
            let ys: Vec<usize> = c.try_decode_symbols(models.iter().map(|m| Ok::<_, ()>(*m))).skip(j).map(|r| r.expect("ANS decode failed")).collect();
            let mut out = vec![SKIPPED; j.min(models.len())];
            out.extend(ys);
            out
        }
        DecForm::IidCount => {
            let n = c.decode_iid_symbols(models.len(), models[0]).count();
            vec![SKIPPED; n]
        }
        DecForm::SymbolsLast => {
            let last = c.decode_symbols(models.iter().copied()).last();
            let mut out = vec![SKIPPED; models.len().saturating_sub(1)];
            if let Some(r) = last {
                out.push(r.expect("ANS decode failed"));
            }
            out
        }
        DecForm::IidNth(n) => {
            let mut it = c.decode_iid_symbols(models.len(), models[0]);
            let mut out = Vec::new();
            while let Some(r) = it.nth(n) {
                out.extend(std::iter::repeat(SKIPPED).take(n));
                out.push(r.expect("ANS decode failed"));
            }
            // a trailing partial group was decoded and discarded as well
            while out.len() < models.len() {
                out.push(SKIPPED);
            }
            out
        }
    }
}

#[macro_export]
macro_rules! model_enum {
    ($name:ident, $W:ty, [$($V:ident : ($Pr:ty, $P:literal)),+ $(,)?]) => {
        #[derive(Clone, Debug)]
        pub enum $name {
            $($V($crate::table::TableModel<$Pr, $P>)),+
        }

        #[allow(unused_assignments)]
        impl $crate::table::ModelSet for $name {
            type W = $W;
            const PRECS: &'static [(u32, u32)] =
                &[$(($P, <$Pr as $crate::num::Num>::NBITS)),+];

            fn from_cdf(variant: usize, cdf: Vec<u128>) -> Self {
                let mut i = 0usize;
                $(
                    if variant == i {
                        return Self::$V($crate::table::TableModel::new(cdf));
                    }
                    i += 1;
                )+
                let _ = i;
                unreachable!("bad variant")
            }

            fn variant(&self) -> usize {
                let mut i = 0usize;
                $(
                    if let Self::$V(_) = self {
                        return i;
                    }
                    i += 1;
                )+
                let _ = i;
                unreachable!()
            }

            fn prec(&self) -> u32 {
                match self { $(Self::$V(_) => $P),+ }
            }

            fn cdf(&self) -> &[u128] {
                match self { $(Self::$V(m) => &m.cdf[..]),+ }
            }

            fn ans_encode<S, B>(
                &self,
                c: &mut constriction::stream::stack::AnsCoder<$W, S, B>,
                sym: usize,
            ) -> Result<(), $crate::table::EncErr<B::WriteError>>
            where
                S: constriction::BitArray + num_traits::AsPrimitive<$W>,
                $W: Into<S>,
                B: constriction::backends::WriteWords<$W>,
            {
                use constriction::stream::Encode;
                match self { $(Self::$V(m) => c.encode_symbol(sym, m)),+ }
            }

            fn ans_decode<S, B>(
                &self,
                c: &mut constriction::stream::stack::AnsCoder<$W, S, B>,
            ) -> Result<usize, constriction::CoderError<core::convert::Infallible, B::ReadError>>
            where
                S: constriction::BitArray + num_traits::AsPrimitive<$W>,
                $W: Into<S>,
                B: constriction::backends::ReadWords<$W, constriction::Stack>,
            {
                use constriction::stream::Decode;
                match self { $(Self::$V(m) => c.decode_symbol(m)),+ }
            }

            fn ans_encode_many<S, B>(
                c: &mut constriction::stream::stack::AnsCoder<$W, S, B>,
                items: &[(usize, &Self)],
                form: $crate::table::EncForm,
                fail_at: Option<usize>,
            ) -> $crate::table::BatchOutcome
            where
                S: constriction::BitArray + num_traits::AsPrimitive<$W>,
                $W: Into<S>,
                B: constriction::backends::WriteWords<$W>,
            {
                match items[0].1 {
                    $(Self::$V(_) => {
                        let inner: Vec<(usize, &$crate::table::TableModel<$Pr, $P>)> = items
                            .iter()
                            .map(|(s, m)| match m {
                                Self::$V(t) => (*s, t),
                                _ => panic!("harness bug: mixed variants in batch"),
                            })
                            .collect();
                        $crate::table::ans_encode_many_impl(c, &inner, form, fail_at)
                    }),+
                }
            }

            fn ans_decode_many<S, B>(
                c: &mut constriction::stream::stack::AnsCoder<$W, S, B>,
                models: &[&Self],
                form: $crate::table::DecForm,
            ) -> Vec<usize>
            where
                S: constriction::BitArray + num_traits::AsPrimitive<$W>,
                $W: Into<S>,
                B: constriction::backends::ReadWords<$W, constriction::Stack>,
            {
                match models[0] {
                    $(Self::$V(_) => {
                        let inner: Vec<&$crate::table::TableModel<$Pr, $P>> = models
                            .iter()
                            .map(|m| match m {
                                Self::$V(t) => t,
                                _ => panic!("harness bug: mixed variants in batch"),
                            })
                            .collect();
                        $crate::table::ans_decode_many_impl(c, &inner, form)
                    }),+
                }
            }

            fn range_encode<S, B>(
                &self,
                c: &mut constriction::stream::queue::RangeEncoder<$W, S, B>,
                sym: usize,
            ) -> Result<(), $crate::table::EncErr<B::WriteError>>
            where
                S: constriction::BitArray + num_traits::AsPrimitive<$W>,
                $W: Into<S>,
                B: constriction::backends::WriteWords<$W>,
            {
                use constriction::stream::Encode;
                match self { $(Self::$V(m) => c.encode_symbol(sym, m)),+ }
            }

            fn range_decode<S, B>(
                &self,
                c: &mut constriction::stream::queue::RangeDecoder<$W, S, B>,
            ) -> Result<usize, constriction::CoderError<constriction::stream::queue::DecoderFrontendError, B::ReadError>>
            where
                S: constriction::BitArray + num_traits::AsPrimitive<$W>,
                $W: Into<S>,
                B: constriction::backends::ReadWords<$W, constriction::Queue>,
            {
                use constriction::stream::Decode;
                match self { $(Self::$V(m) => c.decode_symbol(m)),+ }
            }
        }
    };
}

model_enum!(ModelU8, u8, [A: (u8, 1), B: (u8, 3), C: (u8, 7), D: (u8, 8)]);
model_enum!(ModelU16, u16, [A: (u16, 1), B: (u8, 8), C: (u16, 11), D: (u16, 15), E: (u16, 16)]);
model_enum!(ModelU32, u32, [A: (u32, 2), B: (u8, 8), C: (u16, 16), D: (u32, 24), E: (u32, 31), F: (u32, 32)]);
model_enum!(ModelU64, u64, [A: (u64, 5), B: (u32, 32), C: (u64, 40), D: (u64, 63), E: (u64, 64)]);

/// Generate a zoo of `k` models.
pub fn gen_zoo<M: ModelSet>(rng: &mut Rng, k: usize, max_n: usize) -> Vec<M> {
    let mut zoo = Vec::with_capacity(k);
    for _ in 0..k {
        let v = rng.below(M::PRECS.len() as u64) as usize;
        let p = M::PRECS[v].0;
        let cdf = gen_cdf(rng, p, max_n);
        zoo.push(M::from_cdf(v, cdf));
    }
    zoo
}
