//! Shared range-coder workload: message generation interleaved with encoding on the real
//! `RangeEncoder`, with the state-observing adversary **RangeSteer** that reads the encoder's
//! public state after every step and picks the next `(cumulative, probability)` to reach a
//! specific edge (enter / extend / leave the inverted situation with or without carry, range
//! exactly on the renormalisation threshold, upper end exactly 2^S, interval ending just above a
//! word boundary).

use crate::num::{mask, pow2, Num};
use crate::prng::Rng;
use crate::refimpl::{add_mod, RefRange};
use crate::report::Run;
use crate::table::*;
use constriction::stream::queue::RangeEncoder;
use constriction::stream::Code;
use constriction::Pos;
use num_traits::AsPrimitive;

pub type Enc<M, S> = RangeEncoder<<M as ModelSet>::W, S, Vec<<M as ModelSet>::W>>;

pub struct Msg<M> {
    pub zoo: Vec<M>,
    /// (model index, symbol)
    pub syms: Vec<(usize, usize)>,
}

#[derive(Default, Clone, Debug)]
pub struct Edges {
    pub steps_inverted: u64,
    pub enter: u64,
    pub extend: u64,
    pub exit_carry: u64,
    pub exit_nocarry: u64,
    pub range_on_threshold: u64,
    pub upper_exact: u64,
    pub longest_run: u64,
    pub steered: u64,
    pub renorms: u64,
}

impl Edges {
    pub fn publish(&self, run: &mut Run) {
        run.count("steps_inverted", self.steps_inverted);
        run.count("inv_enter", self.enter);
        run.count("inv_extend", self.extend);
        run.count("inv_exit_carry", self.exit_carry);
        run.count("inv_exit_nocarry", self.exit_nocarry);
        run.count("range_on_threshold", self.range_on_threshold);
        run.count("upper_exactly_2^S", self.upper_exact);
        run.count("steered_symbols", self.steered);
        run.count("renormalisations", self.renorms);
        run.maximum("longest_held_back_run", self.longest_run as f64);
    }
}

pub fn num_inverted<M: ModelSet, S: Num>(enc: &Enc<M, S>) -> usize
where
    M::W: Into<S>,
    S: AsPrimitive<M::W>,
{
    enc.pos().0 - enc.bulk().len()
}

pub fn lower_range<M: ModelSet, S: Num>(enc: &Enc<M, S>) -> (u128, u128)
where
    M::W: Into<S>,
    S: AsPrimitive<M::W>,
{
    use constriction::NonZeroBitArray;
    let st = enc.state();
    (st.lower().as_u(), st.range().get().as_u())
}

/// Pure prediction of one encoder step (documented algorithm), used by the adversary only to
/// *choose* inputs; the monitors never trust it.
#[derive(Clone, Copy, Debug)]
pub struct Pred {
    pub lower: u128,
    pub range: u128,
    pub renorm: bool,
    /// lower + scale*cum wrapped past 2^S
    pub carry: bool,
    /// after the step, lower + range exceeds 2^S (interval contains the wrap point)
    pub straddles: bool,
}

pub fn predict(w: u32, s: u32, lower: u128, range: u128, cum: u128, p: u128, prec: u32) -> Pred {
    let scale = range >> prec;
    let (mut nl, carry) = add_mod(lower, scale * cum, s);
    let mut nr = scale * p;
    let mut renorm = false;
    if nr < pow2(s - w) {
        renorm = true;
        nl = (nl << w) & mask(s);
        nr <<= w;
    }
    let (_, straddles) = add_mod(nl, nr, s);
    // lower+range == 2^S exactly counts as *not* straddling for the library ("> lower" test
    // fails only if the sum wraps to <= lower; a sum of exactly 2^S wraps to 0 <= lower)
    Pred {
        lower: nl,
        range: nr,
        renorm,
        carry,
        straddles,
    }
}

#[derive(Clone, Copy, Debug, PartialEq, Eq)]
pub enum Goal {
    None,
    EnterOrStay,
    ExitCarry,
    ExitNoCarry,
    Threshold,
    /// new range in [2^(S-W), 2*2^(S-W)) without renormalisation
    ThresholdAbove,
    UpperExact,
    /// after this (last) symbol, lower+range lies just above a word boundary that is also the
    /// word of the seal point: the two-word-seal edge of C11
    EndNearBoundary,
}

/// Try to find (variant, cum, p) achieving `goal` from the current state.
fn steer<M: ModelSet>(
    rng: &mut Rng,
    w: u32,
    s: u32,
    lower: u128,
    range: u128,
    inverted: bool,
    goal: Goal,
) -> Option<(usize, u128, u128)> {
    for _attempt in 0..6 {
        let v = rng.below(M::PRECS.len() as u64) as usize;
        let prec = M::PRECS[v].0;
        let total = pow2(prec);
        if total < 4 {
            continue;
        }
        let scale = range >> prec;
        let smax = mask(s);
        let mut cands: Vec<(u128, u128)> = Vec::new();
        match goal {
            Goal::EnterOrStay => {
                // interval must contain a multiple of 2^(S-W) strictly inside after the step and
                // be short enough to renormalise. Aim lower just below the boundary.
                let unit = pow2(s - w);
                let boundary = if inverted {
                    // the wrap point 2^S itself
                    smax // distance computed below with +1
                } else {
                    // next multiple of unit above lower (mod 2^S handled by using distance)
                    let off = lower & (unit - 1);
                    lower.wrapping_add(unit - off).wrapping_sub(1) & smax
                };
                // distance from lower to the last value below the boundary
                let dist = boundary.wrapping_sub(lower) & smax;
                let c0 = dist / scale.max(1);
                for dc in 0..3u128 {
                    let cum = c0.saturating_sub(dc);
                    for p in [1u128, 2, 3, 1 + rng.below128(total.min(64))] {
                        if cum + p <= total && p < total {
                            cands.push((cum, p));
                        }
                    }
                }
            }
            Goal::ExitCarry => {
                // lower + scale*cum must wrap: cum > (2^S - lower)/scale
                let dist = (smax - lower).saturating_add(1); // 2^S - lower (saturating for lower == 0 at S = 128)
                let c0 = dist / scale.max(1) + 1;
                for dc in 0..3u128 {
                    let cum = c0 + dc;
                    for p in [1u128, 2, 1 + rng.below128(total.min(256))] {
                        if cum + p <= total && p < total {
                            cands.push((cum, p));
                        }
                    }
                }
            }
            Goal::ExitNoCarry => {
                // stay strictly below the wrap: lower + scale*(cum+p) <= 2^S - 1
                let dist = smax - lower;
                let cmax = dist / scale.max(1);
                if cmax >= 1 {
                    for _ in 0..3 {
                        let p = 1 + rng.below128(cmax.min(total - 1));
                        let cum = rng.below128(cmax - p + 1);
                        if cum + p <= total && p < total {
                            cands.push((cum, p));
                        }
                    }
                }
            }
            Goal::Threshold => {
                // scale * p == 2^(S-W) exactly, or +-1 multiples around it
                let unit = pow2(s - w);
                if scale > 0 {
                    let p0 = unit / scale;
                    for p in [p0, p0 + 1, p0.saturating_sub(1)] {
                        if p >= 1 && p < total {
                            let cum = rng.below128(total - p + 1);
                            cands.push((cum, p));
                        }
                    }
                }
            }
            Goal::ThresholdAbove => {
                let unit = pow2(s - w);
                if scale > 0 {
                    let p0 = unit.div_ceil(scale);
                    for p in [p0, p0 + 1, p0 + rng.below128(p0.max(1))] {
                        if p >= 1 && p < total {
                            let cum = rng.below128(total - p + 1);
                            cands.push((cum, p));
                        }
                    }
                }
            }
            Goal::UpperExact => {
                // last symbol of the model: lower + scale*cum + scale*p; exact 2^S needs luck, but
                // the very first symbols (range = 2^S - 1) never reach it; use last symbol anyway
                let p = 1 + rng.below128(total.min(16));
                cands.push((total - p, p));
            }
            Goal::EndNearBoundary => {
                // Case without renormalisation: new range = scale*p in [unit, unit+scale) and
                // lower' + range' in [B, B + small) for a word boundary B: then the seal point
                // and the upper end share a word (two-word seal) and the upper end is within
                // `small` of that word's start.
                let unit = pow2(s - w);
                if scale > 0 {
                    let p0 = unit.div_ceil(scale);
                    for p in [p0, p0 + 1, p0 + 2] {
                        if p == 0 || p >= total {
                            continue;
                        }
                        let nr = scale * p;
                        // first boundary B >= lower + nr (mod 2^S arithmetic via distances)
                        let base = lower.wrapping_add(nr) & smax;
                        let off = base & (unit - 1);
                        let dist0 = if off == 0 { 0 } else { unit - off };
                        for k in 0..2u128 {
                            let dist = dist0 + k * unit;
                            let cum = dist.div_ceil(scale);
                            if cum + p <= total {
                                cands.push((cum, p));
                            }
                        }
                    }
                }
            }
            Goal::None => {}
        }
        for (cum, p) in cands {
            let pr = predict(w, s, lower, range, cum, p, prec);
            let ok = match goal {
                Goal::EnterOrStay => pr.renorm && pr.straddles && (!inverted || !pr.carry),
                Goal::ExitCarry => inverted && pr.carry,
                Goal::ExitNoCarry => inverted && !pr.carry && {
                    // not straddling *before* renormalisation
                    let scale = range >> prec;
                    let (nl, c1) = add_mod(lower, scale * cum, s);
                    let (_, c2) = add_mod(nl, scale * p, s);
                    !c1 && !c2
                },
                Goal::Threshold => {
                    let unit = pow2(s - w);
                    let r = (range >> prec) * p;
                    r == unit || r + (range >> prec) > unit && r < unit || r == unit + (range >> prec)
                }
                Goal::ThresholdAbove => !pr.renorm && pr.range < 2 * pow2(s - w),
                Goal::UpperExact => true,
                Goal::EndNearBoundary => {
                    let unit = pow2(s - w);
                    let (upper, _) = add_mod(pr.lower, pr.range, s);
                    let (point, _) = add_mod(pr.lower, unit - 1, s);
                    let frac = upper & (unit - 1);
                    let lim = if s >= 2 * w { pow2(s - 2 * w) * 2 } else { 2 };
                    !pr.renorm && (upper >> (s - w)) == (point >> (s - w)) && frac < lim.max(4)
                }
                Goal::None => false,
            };
            if ok {
                return Some((v, cum, p));
            }
        }
    }
    None
}

pub fn three_symbol_cdf(cum: u128, p: u128, prec: u32) -> Option<(Vec<u128>, usize)> {
    let total = pow2(prec);
    let mut cdf = vec![0u128];
    if cum > 0 {
        cdf.push(cum);
    }
    let target = cdf.len() - 1;
    if cum + p < total {
        cdf.push(cum + p);
    }
    cdf.push(total);
    if cdf.len() < 3 {
        None
    } else {
        Some((cdf, target))
    }
}

pub struct DriveCfg {
    pub n: usize,
    /// probability (out of 16) that a step is steered at all
    pub steer_16: u64,
    pub max_n_symbols: usize,
    /// probability (out of 16) that the last symbol is steered to the two-word-seal edge
    pub end_near_16: u64,
}

/// Encodes `cfg.n` symbols on `enc`, choosing them on the fly; records them in `msg`; feeds the
/// identical `(cum,p,P)` stream to `reference` if given; calls `hook(i)` *before* symbol i and
/// once with i == n after the last symbol.
pub fn drive<M: ModelSet, S: Num>(
    run: &mut Run,
    rng: &mut Rng,
    enc: &mut Enc<M, S>,
    msg: &mut Msg<M>,
    mut reference: Option<&mut RefRange>,
    edges: &mut Edges,
    cfg: &DriveCfg,
    mut hook: impl FnMut(&mut Run, &mut Rng, &mut Enc<M, S>, &Msg<M>, usize) -> bool,
) -> bool
where
    M::W: Into<S>,
    S: AsPrimitive<M::W>,
{
    let w = <M::W as Num>::NBITS;
    let s = S::NBITS;
    if msg.zoo.is_empty() {
        let k = rng.usize_in(1, 4);
        msg.zoo = gen_zoo(rng, k, cfg.max_n_symbols);
    }
    let mut mode = Goal::None;
    let mut mode_left = 0usize;
    let mut cur_run = 0u64;
    let end_plan = cfg.n >= 1 && rng.below(16) < cfg.end_near_16;
    // one steered message in 16 (if long enough) is a "marathon": the adversary keeps the encoder
    // in the inverted situation for 36..90 consecutive symbols, so that several dozen words are
    // held back at once (random messages practically never exceed 15)
    let marathon = cfg.steer_16 > 0 && cfg.n >= 50 && rng.chance(1, 16);
    for i in 0..cfg.n {
        if !hook(run, rng, enc, msg, i) {
            return false;
        }
        let (lower, range) = lower_range::<M, S>(enc);
        let inv_before = num_inverted::<M, S>(enc);
        if range < pow2(s - w) {
            run.violation(
                "invariant",
                "C02/range-below-threshold",
                format!("encoder range {range:#x} < 2^(S-W) before symbol {i} (W={w},S={s})"),
            );
            return false;
        }
        if mode_left == 0 && rng.below(16) < cfg.steer_16 {
            mode = *rng.pick(&[
                Goal::EnterOrStay,
                Goal::EnterOrStay,
                Goal::EnterOrStay,
                Goal::Threshold,
                Goal::UpperExact,
            ]);
            mode_left = rng.usize_in(1, 12);
            if marathon && mode == Goal::EnterOrStay {
                mode_left = rng.usize_in(36, 90).min(cfg.n - i);
            }
        }
        let mut choice: Option<(usize, usize)> = None;
        if end_plan && i + 2 == cfg.n {
            mode_left = 1;
            mode = Goal::ThresholdAbove;
        }
        if end_plan && i + 1 == cfg.n {
            mode_left = 1;
            mode = Goal::EndNearBoundary;
        }
        if mode_left > 0 {
            mode_left -= 1;
            // (a marathon that lasts to the end of the message may also be sealed as it is)
            let stay_to_the_end = marathon && i + 1 == cfg.n && rng.bool();
            let goal = if inv_before > 0 && mode == Goal::EnterOrStay && mode_left == 0 && !stay_to_the_end {
                // end of a steered run: leave deliberately, by carry or not
                if rng.bool() {
                    Goal::ExitCarry
                } else {
                    Goal::ExitNoCarry
                }
            } else {
                mode
            };
            if let Some((v, cum, p)) = steer::<M>(rng, w, s, lower, range, inv_before > 0, goal) {
                if let Some((cdf, target)) = three_symbol_cdf(cum, p, M::PRECS[v].0) {
                    msg.zoo.push(M::from_cdf(v, cdf));
                    choice = Some((msg.zoo.len() - 1, target));
                    edges.steered += 1;
                }
            }
        }
        let (mi, sym) = match choice {
            Some(c) => c,
            None => {
                let mi = rng.below(msg.zoo.len() as u64) as usize;
                (mi, pick_symbol(rng, msg.zoo[mi].cdf()))
            }
        };
        let m = &msg.zoo[mi];
        let (cum, p) = m.cp(sym);
        let prec = m.prec();
        run.h(sym as u64 ^ (prec as u64) << 40 ^ (mi as u64) << 48);
        run.h128(cum ^ (p << 64));
        if m.range_encode(enc, sym).is_err() {
            run.violation(
                "encode-failed",
                "C02/encode-error",
                format!("range encode_symbol returned Err for in-support symbol (cum={cum},p={p},P={prec})"),
            );
            return false;
        }
        if let Some(r) = reference.as_deref_mut() {
            r.encode(cum, p, prec);
        }
        msg.syms.push((mi, sym));
        // classify what happened from observed state
        let inv_after = num_inverted::<M, S>(enc);
        let (_l2, r2) = lower_range::<M, S>(enc);
        let pr = predict(w, s, lower, range, cum, p, prec);
        if pr.renorm {
            edges.renorms += 1;
        }
        if inv_after > 0 {
            edges.steps_inverted += 1;
        }
        if inv_before == 0 && inv_after > 0 {
            edges.enter += 1;
            cur_run = inv_after as u64;
        } else if inv_before > 0 && inv_after > inv_before {
            edges.extend += 1;
            cur_run = inv_after as u64;
        } else if inv_before > 0 && inv_after == 0 {
            if pr.carry {
                edges.exit_carry += 1;
            } else {
                edges.exit_nocarry += 1;
            }
        } else if inv_before > 0 && inv_after > 0 && inv_after <= inv_before {
            // left and re-entered within one step
            if pr.carry {
                edges.exit_carry += 1;
            } else {
                edges.exit_nocarry += 1;
            }
            edges.enter += 1;
            cur_run = inv_after as u64;
        }
        if cur_run > edges.longest_run {
            edges.longest_run = cur_run;
        }
        if r2 == pow2(s - w) {
            edges.range_on_threshold += 1;
        }
        let (l3, r3) = lower_range::<M, S>(enc);
        if add_mod(l3, r3, s) == (0, true) {
            edges.upper_exact += 1;
        }
    }
    hook(run, rng, enc, msg, cfg.n)
}

/// Row dispatcher for range-coder properties (State must be a multiple of Word).
#[macro_export]
macro_rules! range_rows {
    ($run:expr, $rng:expr, $f:ident) => {{
        let k = if $run.small { 4 } else { 8 };
        match $rng.below(k) {
            0 => $f::<$crate::table::ModelU8, u16>($run, $rng),
            1 => $f::<$crate::table::ModelU8, u32>($run, $rng),
            2 => $f::<$crate::table::ModelU16, u32>($run, $rng),
            3 => $f::<$crate::table::ModelU32, u64>($run, $rng),
            4 => $f::<$crate::table::ModelU8, u64>($run, $rng),
            5 => $f::<$crate::table::ModelU16, u64>($run, $rng),
            6 => $f::<$crate::table::ModelU64, u128>($run, $rng),
            _ => $f::<$crate::table::ModelU32, u128>($run, $rng),
        }
    }};
}

pub fn row_name(w: u32, s: u32) -> &'static str {
    match (w, s) {
        (8, 16) => "row_u8_u16",
        (8, 32) => "row_u8_u32",
        (8, 64) => "row_u8_u64",
        (16, 32) => "row_u16_u32",
        (16, 64) => "row_u16_u64",
        (32, 64) => "row_u32_u64",
        (32, 128) => "row_u32_u128",
        (64, 128) => "row_u64_u128",
        _ => "row_other",
    }
}
