#!/bin/bash
# usage: confirm_mutant.sh <worktree> <A|B> <seed-id>   e.g. confirm_mutant.sh /tmp/mut/w03 A C03-a
# Confirms in the scratch worktree: patch applies; full existing suite passes with the patch;
# demo fails with the patch and passes without. On success copies to /verif/seeded/<seed-id>/.
set -u
WT=$1; V=$2; ID=$3
M=$WT/MUTANT/$V
cd $WT || exit 2
export CARGO_NET_OFFLINE=true
git checkout -q -- . ; rm -f tests/mutant_demo.rs
[ -f $M/patch.diff ] && [ -f $M/demo.rs ] || { echo "$ID: missing files"; exit 2; }
git apply --check $M/patch.diff || { echo "$ID: patch does not apply"; exit 2; }
git apply $M/patch.diff
SUITE=$(cargo test --workspace --no-fail-fast --offline 2>&1 | grep -E "^test result" | grep -vc "ok\.")
BUILD=$?
cp $M/demo.rs tests/mutant_demo.rs
cargo test --offline --test mutant_demo > /tmp/mut/demo_with_$ID.log 2>&1; WITH=$?
git checkout -q -- .
cargo test --offline --test mutant_demo > /tmp/mut/demo_without_$ID.log 2>&1; WITHOUT=$?
rm -f tests/mutant_demo.rs
echo "$ID: suite_failures_with_patch=$SUITE demo_with_patch_rc=$WITH demo_without_patch_rc=$WITHOUT"
if [ "$SUITE" = "0" ] && [ $WITH -ne 0 ] && [ $WITHOUT -eq 0 ]; then
  mkdir -p /verif/seeded/$ID && cp $M/patch.diff $M/demo.rs /verif/seeded/$ID/ && cp $M/notes.md /verif/seeded/$ID/notes.md 2>/dev/null
  echo "$ID: CONFIRMED"
else
  echo "$ID: NOT CONFIRMED"; tail -5 /tmp/mut/demo_with_$ID.log
fi
