#!/usr/bin/env python3
"""Re-runs every seeded change against the check of the property it was aimed at (quick tier)
and writes seeded/MATRIX.json. /repo must be clean and no other check may run meanwhile."""
import json, glob, subprocess, os, sys, time
ROOT = os.path.dirname(os.path.dirname(os.path.abspath(__file__)))
out = {}
only = sys.argv[1:]
for d in sorted(glob.glob(os.path.join(ROOT, 'seeded', '*', 'meta.json'))):
    m = json.load(open(d))
    sid = m['id']
    if only and sid not in only and m['breaks_property'] not in only:
        continue
    targets = [k for k, v in m['results'].items() if 'CAUGHT' in v]
    if os.environ.get("MATRIX_TARGET_ONLY") and targets:
        # only the check of the property the change was aimed at (or, where that property's
        # quantifier does not cover the change, the first check that is claimed to catch it)
        targets = [m['breaks_property']] if m['breaks_property'] in targets else targets[:1]
    t0 = time.time()
    p = subprocess.run([os.path.join(ROOT, 'tools', 'try_mutant.py'), os.path.join(os.path.dirname(d), 'patch.diff')] + targets, stdout=subprocess.PIPE, stderr=subprocess.STDOUT, text=True)
    res = {}
    for l in p.stdout.splitlines():
        w = l.split()
        if len(w) >= 2 and w[0] in targets:
            res[w[0]] = w[1]
    out[sid] = res
    print(sid, res, '%.0fs' % (time.time() - t0), flush=True)
    if any(v != 'CAUGHT' for v in res.values()) or set(res) != set(targets):
        print('   !!', p.stdout[-800:], flush=True)
json.dump({'tier': 'quick', 'seed': 1, 'results': out}, open(os.path.join(ROOT, 'seeded', 'MATRIX.json'), 'w'), indent=1, sort_keys=True)
bad = [k for k, v in out.items() if any(x != 'CAUGHT' for x in v.values())]
print('done:', len(out), 'changes;', 'not caught where claimed:', bad)
