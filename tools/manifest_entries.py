"""Per-property MANIFEST texts."""

NOT_BUILT_REASON = "check not built yet in this revision of /verif (planned in DESIGN.md section 5); not claimed until its monitor exists and is validated"
NOT_APPLICABLE = {}

TB = ("trusted base: the harness crate (generators, TableModel, reference implementations in harness/src/refimpl.rs), rustc/std "
      "unsafe-precondition + overflow checks, and for thorough tiers Miri / AddressSanitizer; only instantiated type rows are observed")

ENTRIES = {
    "C01": {
        "text": "Executes the real AnsCoder on tens of thousands (quick) to millions (thorough) of generated push/pop/reload histories over 8 "
                "(Word,State) rows with per-symbol precision changes and flush-edge steering; a shadow stack checks every popped symbol and the "
                "exported words at every level popped back to, a twin checks all batch/reverse/fallible forms against the per-symbol loop, and an "
                "independent reference rANS must agree on head and bulk after every operation. Thorough adds a dense single-step sweep of all "
                "2^16 states of (u8,u16). Held-on-observed, not a proof.",
        "note": TB,
        "technique": "runtime monitoring: shadow-stack + twin + lock-step reference-model oracles over generated/steered histories (dbg with std UB checks, rel); dense single-step sweep",
    },
}
