"""Per-property MANIFEST texts."""

NOT_BUILT_REASON = "check not built yet in this revision of /verif (planned in DESIGN.md section 5); not claimed until its monitor exists and is validated"
NOT_APPLICABLE = {}

TB = ("trusted base: the harness crate (generators, TableModel, reference implementations in harness/src/refimpl.rs), rustc/std "
      "unsafe-precondition + overflow checks, and for thorough tiers Miri / AddressSanitizer; only instantiated type rows are observed")

ENTRIES = {
    "C01": {
        "text": "Executes the real AnsCoder on tens of thousands (quick) to millions (thorough) of generated push/pop/reload histories over 8 "
                "(Word,State) rows with per-symbol precision changes and flush-edge steering; a shadow stack checks every popped symbol and the "
                "exported words at every level popped back to, a twin checks all batch/reverse/fallible forms against the per-symbol loop, and an "
                "independent reference rANS must agree on head and bulk after every operation. Thorough adds a dense single-step sweep of all "
                "2^16 states of (u8,u16). Held-on-observed, not a proof.",
        "note": TB,
        "technique": "runtime monitoring: shadow-stack + twin + lock-step reference-model oracles over generated/steered histories (dbg with std UB checks, rel); dense single-step sweep",
    },
    "C02": {
        "text": "Runs the real RangeEncoder/RangeDecoder on messages generated while encoding, by random choice and by a state-observing "
                "adversary that forces entry into, long stays in and both kinds of exit from the carry-pending (inverted) situation, sealing "
                "while inverted, ranges on the renormalisation threshold; checks exact FIFO round trip through five decoder constructions, the "
                "encoder and decoder interval invariants after every step, empty-message and maybe_exhausted clauses, and word-for-word equality "
                "with an independent carry-propagating reference coder. Edge events are counted and the run is INCONCLUSIVE if they were not reached.",
        "note": TB,
        "technique": "runtime monitoring: round-trip + invariant monitors + lock-step carry-propagating reference range coder under state-steered hostile messages",
    },
    "C06": {
        "text": "Feeds identical (cumulative, probability, precision) streams to the real ANS coder / range encoder and to independent "
                "reference implementations written from the published algorithms (u128 rANS; carry-propagating range coder with mutable "
                "digits), comparing per-step head/interval and final words on all 8 type rows, plus 12 byte-exact vectors from the project's "
                "documentation (README, lib.rs, stream/mod.rs, stack.rs, Python doc examples). Detects symmetric encoder+decoder changes that round trips cannot see.",
        "note": TB + "; a defect shared by documentation, reference and code would be invisible",
        "technique": "runtime monitoring: differential execution against independent reference implementations + pinned documentation vectors",
    },
    "C11": {
        "text": "Decodes sealed range-coder output followed by hostile suffixes (all-ones, zeros, random, a second sealed message, pre-filled sink) "
                "for hundreds of thousands of steered short messages whose final interval ends just above a word boundary, and evaluates an analytic "
                "side-oracle from the encoder's final public state that says whether any suffix could break the message. Encoders over pre-filled sinks are also inspected before "
                "their first symbol. (The check found that the documented two-word seal was insufficient for State > 2 Words; repaired by fix commit 4aeff50, recorded as fixed.)",
        "note": TB + "; a failure of the old shape (State > 2 Words, seal [w,0], side-oracle unpinned) is still classified separately (C11/seal-2w-wide-state) but, being fixed, is a VIOLATION like any other",
        "technique": "runtime monitoring: suffix-injection round trips + analytic interval-containment oracle on observed encoder state, steered to the seal edge",
    },
    "C04": {
        "text": "Loads arbitrary word sequences (emphasising zero words next to the implicit marker, all-zero, all-ones, empty) as raw binary "
                "data into the real AnsCoder through three import paths, decodes up to 200 symbols with mixed models and precisions, encodes "
                "them back in reverse and requires word-for-word restoration through into_binary and get_binary on Vec and reversed-cursor "
                "backends, exact num_valid_bits at both ends, no decode failure, and lock-step agreement with the reference rANS.",
        "note": TB,
        "technique": "runtime monitoring: decode/re-encode round trip on arbitrary data with lock-step reference rANS and cross-backend twins",
    },
    "C07": {
        "text": "Takes a position/state snapshot at every symbol boundary of real encoders (ANS after each push; range encoder before each symbol and at the "
                "end, tens of thousands of them while words are held back for a pending carry) and replays seeks in hostile orders on every seekable decoder "
                "construction the library offers, checking the symbols that follow each seek, possibly-exhausted at the final position, refusal of "
                "out-of-range positions and that a refused seek leaves the decoder undisturbed.",
        "note": TB,
        "technique": "runtime monitoring: recorded-history oracle over snapshot/seek/decode histories with state-steered encoders",
    },
    "C08": {
        "text": "Drives inspected coders and uninspected twins with identical operations; every temporary view / decoder / iterator / clone / size query is "
                "compared with what finishing a clone at that moment returns, the raw parts are compared before and after the view is dropped, and the final "
                "outputs of coder and twin must coincide - for AnsCoder (plain and raw-binary views), RangeEncoder (tens of thousands of inspections while inverted) "
                "and the bit-level stack/queue coders at every fill level of the current word.",
        "note": TB,
        "technique": "runtime monitoring: differential twins + clone-and-finish oracle + raw-parts invariants around injected inspections",
    },
    "C12": {
        "text": "Checks the statement's analytic bound after every symbol of long messages on both coders and all type rows, with adversarial symbol choices "
                "(always least probable, always most probable, flush-edge steering), using the library's own size queries plus a counting backend for the "
                "one-word-per-ANS-symbol clause; reports the maximum excess actually observed per row as telemetry. A per-symbol or per-word waste exceeds the "
                "constant within a few hundred symbols; constant-size waste is C06's business.",
        "note": TB + "; f64 information content with Kahan summation and a 1e-6 bit guard",
        "technique": "runtime monitoring: online bound monitor on size queries and a write-counting backend under adversarial symbol choice",
    },
    "C03": {
        "text": "Builds tens of thousands of models per run from documented-valid inputs through every public constructor family (leaky quantizer over 8 "
                "third-party distribution families plus the harness's own step-shaped CDFs, parameters spread over hundreds of orders of magnitude, poor but "
                "legal inverse hints, narrow and signed symbol types; categorical fast/perfect/lazy/lookup/non-contiguous from f32 and f64 tables with tails "
                "below float resolution; fixed-point tables; uniform) and runs an exact integer validity checker on each: tiling of [0,2^P), no zero or one "
                "probability, None outside the support incl. aliasing values, and the quantile function on EVERY quantile up to 2^16 (edges, +-1 and random "
                "quantiles above). A CPU-time watchdog turns non-termination of a lookup into a violation.",
        "note": TB + "; alarms on third-party CDFs that are demonstrably non-monotone at the probed points are counted but not judged (documented precondition)",
        "technique": "runtime monitoring: exact reference-model validity checker over generated constructor inputs; std UB checks, overflow checks and a CPU-time hang watchdog",
    },
    "C05": {
        "text": "For each generated distribution obtains the complete (symbol, cumulative, probability) table of every representation the library offers "
                "through that representation's own access path (encoder queries, quantile walk, symbol_table, views, lazy vs eager constructors with "
                "identical arguments, lookup tables direct and converted, hash-table encoders, all to_generic_* conversions, &M impls) and requires pairwise "
                "equality with the encoder view; then encodes with one representation and decodes with another on the ANS and range coders.",
        "note": TB,
        "technique": "runtime monitoring: differential comparison of exhaustively extracted tables across representations + cross-representation coding",
    },
    "C18": {
        "text": "Evaluates num_words / num_bits / num_valid_bits / is_empty / len / maybe_exhausted at every step of generated ANS, range-encoder (tens of "
                "thousands of queries while words are held back) and bit-coder histories against what exporting a clone at that moment returns, checks decoders "
                "for exhaustion exactly when the encoded symbols are consumed and not while whole words remain, and compares every model diagnostic with its "
                "textbook definition computed from the exact fixed-point probabilities (obtained independently of symbol_table).",
        "note": TB + "; diagnostics compared with an explicit rounding tolerance",
        "technique": "runtime monitoring: clone-and-export oracle on size/emptiness queries at every step + textbook-formula oracle for diagnostics",
    },
    "C19": {
        "text": "Feeds every public model constructor with generated inputs of every invalid class named in the statement (and valid ones) and requires that "
                "each Ok(model) passes the exact C03 validity checker, that a lone symbol with the whole mass is never accepted and that valid infer_last input is "
                "accepted at every precision; clean errors and unwinding panics count as rejection, aborts (std UB checks, SIGSEGV) are attributed to the input by "
                "the driver. Runs in dbg (UB + overflow checks) and rel (where a zero in a NonZero shows as None through the niche). The Python front end is driven too: the "
                "extension built from /repo with --features pybindings, every class of constriction.stream.model from valid and hostile arguments; an accepted model must decode "
                "arbitrary words into its support, restore them exactly when the symbols are encoded back, and round-trip on both coders.",
        "note": TB + "; the Python part runs the release build without sanitizers (Miri cannot cross the FFI) and is optional: INCONCLUSIVE if the extension cannot be built",
        "technique": "runtime monitoring: negative-input generation per constructor with the exact reference-model validity checker as acceptance oracle; std UB/overflow checks",
    },
    "C09": {
        "text": "Injects out-of-support symbols - including values that alias an in-support symbol after narrowing to the probability type - at random points of "
                "encode histories on ANS, range and chain coders and Huffman-coded bit streams, for every encoder-capable model family; requires the documented "
                "impossible-symbol error, bit-identical raw parts after the failure and a correct round trip of everything else. For the ANS coder it ENUMERATES the "
                "write-failure point k over all writes of each generated message and all bounded-sink capacities, checking intactness, decodability and that encoding "
                "can continue to the fault-free result.",
        "note": TB + "; fault injection through a harness backend implementing the public WriteWords/ReadWords traits",
        "technique": "runtime monitoring with fault injection: failing/bounded backends at every write index, raw-parts invariants, round-trip oracle",
    },
    "C10": {
        "text": "Decodes hostile and corrupted word sequences with every decoder and model family under the standard library's unsafe-precondition and overflow checks "
                "(quick) and additionally AddressSanitizer and Miri (thorough); any panic, abort, sanitizer report, hang (CPU-time watchdog), undocumented error or "
                "symbol outside the model's support is a violation. Lookup-table and lazily quantised models get most of the budget because they index tables unchecked; lookup models are built at every precision "
                "including PRECISION == Probability bits, and chain coders decode across precision changes.",
        "note": TB + "; ASan/Miri flavours are optional: if the nightly build is unavailable the run is INCONCLUSIVE for that flavour, never silently green",
        "technique": "runtime monitoring under sanitizers: std UB checks + overflow checks, AddressSanitizer, Miri; support-membership oracle; hang watchdog",
    },
    "C13": {
        "text": "Decodes arbitrary data with the real ChainCoder on 11 type rows, handles the remainders in each of the three documented ways (and both framings), "
                "re-encodes in reverse and requires word-exact restoration, also across precision schedules undone in reverse (change_precision and "
                "increase/decrease_precision); drives the coder into both exhaustion conditions and requires exactly the documented error with untouched heads; "
                "asserts the documented head invariant after every single step through a cfg-guarded accessor.",
        "note": TB + "; there is no published bit-level specification of the chain coder, so there is no reference implementation for it: round trip, error kinds and invariants are the oracles",
        "technique": "runtime monitoring: round-trip oracle over generated histories + invariant assertion at a hook after every step + exhaustion fault paths",
    },
    "C14": {
        "text": "Obtains the chunk map black-box from the real coder with an identity model, then checks for arbitrary models that symbol_i = model_i(chunk_i) and that "
                "the coder runs out of data at the same step, replaces the model at every position and flips every data bit in turn (sampled for long inputs) and "
                "requires that at most the corresponding symbol / chunk changes and never the exhaustion point; interleaves refused operations (seeks the backend must reject, "
                "retries after out-of-data, transient read failures of a fallible word source) and requires that the i-th successfully decoded symbol still comes from chunk i "
                "and that out-of-data stays final.",
        "note": TB + "; bit flips in the top State/Word words under from_compressed framing are excluded (head initialisation length depends on their value)",
        "technique": "runtime monitoring: metamorphic perturbation (model replacement, bit flips) against a black-box chunk map from the real coder",
    },
    "C15": {
        "text": "Builds encoder and decoder Huffman trees from generated weight vectors rich in ties, zeros and deep trees and compares EVERY codeword with an independent "
                "reference construction (the documented (weight,index) tie-break), checks prefix-freeness, the exact Kraft equality, optimality against an independent "
                "two-queue cost, prefix == reversed suffix form, decode(codeword) == symbol, rejection of out-of-alphabet symbols (corner values and values aliasing a valid symbol "
                "after shifts, added powers of two and wrap-around) and NaN reporting; integer, f64 and f32 weights.",
        "note": TB,
        "technique": "runtime monitoring: differential comparison with an independent reference construction + exact integer structural checks",
    },
    "C16": {
        "text": "Runs interleaved write/read/export/re-import/inspection histories on the bit-level stack and queue coders for five word types against a shadow list of items "
                "(bits, Exp-Golomb and Huffman symbols), at every fill level of the last word, and sweeps Exp-Golomb round trips over all u8 values, a dense u16 set and all "
                "2^k-1/2^k/2^k+1/MAX edges of u32/u64 in prefix and suffix form. Also runs the bit coders over sinks that refuse writes (bounded cursor, capacity, transient "
                "fault): refused bits are not content, accepted bits still come back in order.",
        "note": TB,
        "technique": "runtime monitoring: shadow-container oracle over generated histories + exhaustive/dense value sweeps for Exp-Golomb",
    },
    "C17": {
        "text": "Drives every provided backend (Vec, SmallVec, Cursor over four buffer kinds, Reverse<Cursor>, iterator and callback adapters) with generated op histories in "
                "lock step with a 40-line reference, verifies remaining()/space_left()/is_full()/is_exhausted() by actually draining / filling a clone, seeks back to "
                "reported positions, requires refusal of out-of-range positions without side effects, None-after-None, and that in-place reversal is observationally a no-op. "
                "Thorough adds AddressSanitizer and Miri for the unchecked accesses.",
        "note": TB,
        "technique": "runtime monitoring: lock-step reference backend + drain-a-clone bound oracle; ASan/Miri in thorough",
    },
    "C20": {
        "text": "Re-runs a slice of every explorer C01..C19 under the standard library's unsafe-precondition and overflow checks (quick: plus a Miri shard of the abuse workload; "
                "thorough: plus AddressSanitizer and Miri on everything) and adds an accessor-abuse workload (Cursor::buf_mut shrink/replace/grow, forged positions, coders from forged "
                "raw parts, forged seeks) and a hostile-float-table workload (tables on the fixed-point grid mixed with NaN/inf/negatives and hostile normalisations through every "
                "constructor; accepted models used through every method). Only aborts, sanitizer/Miri reports and unsafe-precondition panics count. Cursor::buf_mut breaking the position invariant is a known finding "
                "(K2), matched on its root-cause signature; every other UB event is a VIOLATION.",
        "note": TB + "; ASan cannot see intra-allocation overreads, Miri workloads are small, paths no explorer drives are not judged",
        "technique": "sanitizers and UB interpreter over the runtime-monitoring workloads: std UB checks + overflow checks, Miri, AddressSanitizer; abort localisation and classification by the driver",
    },
}
