"""Per-property MANIFEST texts."""

NOT_BUILT_REASON = "check not built yet in this revision of /verif (planned in DESIGN.md section 5); not claimed until its monitor exists and is validated"
NOT_APPLICABLE = {}

TB = ("trusted base: the harness crate (generators, TableModel, reference implementations in harness/src/refimpl.rs), rustc/std "
      "unsafe-precondition + overflow checks, and for thorough tiers Miri / AddressSanitizer; only instantiated type rows are observed")

ENTRIES = {
    "C01": {
        "text": "Executes the real AnsCoder on tens of thousands (quick) to millions (thorough) of generated push/pop/reload histories over 8 "
                "(Word,State) rows with per-symbol precision changes and flush-edge steering; a shadow stack checks every popped symbol and the "
                "exported words at every level popped back to, a twin checks all batch/reverse/fallible forms against the per-symbol loop, and an "
                "independent reference rANS must agree on head and bulk after every operation. Thorough adds a dense single-step sweep of all "
                "2^16 states of (u8,u16). Held-on-observed, not a proof.",
        "note": TB,
        "technique": "runtime monitoring: shadow-stack + twin + lock-step reference-model oracles over generated/steered histories (dbg with std UB checks, rel); dense single-step sweep",
    },
    "C02": {
        "text": "Runs the real RangeEncoder/RangeDecoder on messages generated while encoding, by random choice and by a state-observing "
                "adversary that forces entry into, long stays in and both kinds of exit from the carry-pending (inverted) situation, sealing "
                "while inverted, ranges on the renormalisation threshold; checks exact FIFO round trip through five decoder constructions, the "
                "encoder and decoder interval invariants after every step, empty-message and maybe_exhausted clauses, and word-for-word equality "
                "with an independent carry-propagating reference coder. Edge events are counted and the run is INCONCLUSIVE if they were not reached.",
        "note": TB,
        "technique": "runtime monitoring: round-trip + invariant monitors + lock-step carry-propagating reference range coder under state-steered hostile messages",
    },
    "C06": {
        "text": "Feeds identical (cumulative, probability, precision) streams to the real ANS coder / range encoder and to independent "
                "reference implementations written from the published algorithms (u128 rANS; carry-propagating range coder with mutable "
                "digits), comparing per-step head/interval and final words on all 8 type rows, plus 12 byte-exact vectors from the project's "
                "documentation (README, lib.rs, stream/mod.rs, stack.rs, Python doc examples). Detects symmetric encoder+decoder changes that round trips cannot see.",
        "note": TB + "; a defect shared by documentation, reference and code would be invisible",
        "technique": "runtime monitoring: differential execution against independent reference implementations + pinned documentation vectors",
    },
    "C11": {
        "text": "Decodes sealed range-coder output followed by hostile suffixes (all-ones, zeros, random, a second sealed message, pre-filled sink) "
                "for hundreds of thousands of steered short messages whose final interval ends just above a word boundary, and evaluates an analytic "
                "side-oracle from the encoder's final public state that says whether any suffix could break the message. The documented two-word seal is "
                "insufficient for State > 2 Words (known finding K1, matched by its root-cause signature); any other failure, in particular any with State = 2 Words, is a VIOLATION.",
        "note": TB + "; the known finding is matched only on signature C11/seal-2w-wide-state (State > 2 Words, seal [w,0], side-oracle unpinned)",
        "technique": "runtime monitoring: suffix-injection round trips + analytic interval-containment oracle on observed encoder state, steered to the seal edge",
    },
}
