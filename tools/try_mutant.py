#!/usr/bin/env python3
"""Apply a seeded change to /repo, run the given checks (quick tier), undo the change.

usage: tools/try_mutant.py <patch.diff> <ID> [<ID> ...]   (IDs: C01..C20 or 'all')
Evidence and replay files of these trial runs go to a scratch directory, never to /verif/evidence.
Prints one line per check: CAUGHT (exit 1 with a VIOLATION line) / MISSED (exit 0) / ERROR.
"""
import os, subprocess, sys, tempfile, shutil

ROOT = os.path.dirname(os.path.dirname(os.path.abspath(__file__)))

def main():
    patch = os.path.abspath(sys.argv[1])
    ids = sys.argv[2:]
    if ids == ["all"]:
        ids = ["C%02d" % i for i in range(1, 21)]
    tier = os.environ.get("MUT_TIER", "quick")
    st = subprocess.run(["git", "-C", "/repo", "status", "--porcelain", "--untracked-files=no"], stdout=subprocess.PIPE, text=True).stdout.strip()
    if st:
        print("refusing: /repo has uncommitted changes:\n" + st); return 2
    if subprocess.run(["git", "-C", "/repo", "apply", "--whitespace=nowarn", patch]).returncode != 0:
        print("patch does not apply"); return 2
    scratch = tempfile.mkdtemp(prefix="mutrun-")
    env = dict(os.environ, VERIF_EVIDENCE_DIR=os.path.join(scratch, "ev"), VERIF_REPLAY_DIR=os.path.join(scratch, "rp"))
    rc_all = 0
    try:
        for pid in ids:
            p = subprocess.run([os.path.join(ROOT, "check"), pid, tier], cwd=ROOT, env=env, stdout=subprocess.PIPE, stderr=subprocess.STDOUT, text=True)
            viol = [l for l in p.stdout.splitlines() if l.startswith("VIOLATION")]
            sigs = [l.strip() for l in p.stdout.splitlines() if l.strip().startswith("kind=")]
            if p.returncode == 1 and viol:
                print("%s CAUGHT  %s" % (pid, "; ".join(sorted(set(sigs)))[:400]))
            elif p.returncode == 0:
                inc = [l for l in p.stdout.splitlines() if l.startswith("INCONCLUSIVE")]
                print("%s MISSED%s" % (pid, "  (" + inc[0][:160] + ")" if inc else ""))
            else:
                print("%s ERROR rc=%d\n%s" % (pid, p.returncode, p.stdout[-1500:]))
                rc_all = 2
    finally:
        subprocess.run(["git", "-C", "/repo", "checkout", "--", "."])
        shutil.rmtree(scratch, ignore_errors=True)
    return rc_all

if __name__ == "__main__":
    sys.exit(main())
