#!/bin/bash
# Measures which lines of /repo/src the harness workloads execute (nightly -Cinstrument-coverage).
# usage: tools/coverage.sh [cases-per-property]   -> prints the per-file summary; details with
#        $BIN/llvm-cov show harness/target-cov/debug/cvmon -instr-profile=harness/target-cov/all.profdata /repo/src/<file>
set -u
N=${1:-3000}
cd "$(dirname "$0")/../harness" || exit 2
export CARGO_NET_OFFLINE=true
BIN=$(dirname $(ls ~/.rustup/toolchains/nightly-*/lib/rustlib/*/bin/llvm-cov | head -1))
RUSTFLAGS="--cfg constriction_verif -Cinstrument-coverage" cargo +nightly build --offline --target-dir target-cov 2>&1 | tail -1
rm -rf target-cov/prof; mkdir -p target-cov/prof
for p in C01 C02 C03 C04 C05 C06 C07 C08 C09 C10 C11 C12 C13 C14 C15 C16 C17 C18 C19 C20; do
  for sh in 0 1; do
    LLVM_PROFILE_FILE=target-cov/prof/$p-$sh.profraw timeout 600 ./target-cov/debug/cvmon $p dbg quick 1 $sh 16 $N >/dev/null 2>&1 &
  done
done
wait
$BIN/llvm-profdata merge -sparse target-cov/prof/*.profraw -o target-cov/all.profdata
$BIN/llvm-cov report ./target-cov/debug/cvmon -instr-profile=target-cov/all.profdata /repo/src 2>/dev/null | grep -vE "^-|^$"
