#!/usr/bin/env python3
"""Validate MANIFEST.json and evidence files against the schemas (needs python3-vt's jsonschema)."""
import json, glob, sys
import jsonschema
m = json.load(open('/verif/MANIFEST.json')); s = json.load(open('/root/.vp/MANIFEST.schema.json'))
jsonschema.validate(m, s); print("manifest ok")
es = json.load(open('/root/.vp/EVIDENCE.schema.json'))
for f in sorted(glob.glob('/verif/evidence/*.json')):
    jsonschema.validate(json.load(open(f)), es); print("evidence ok", f)
