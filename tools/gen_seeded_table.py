#!/usr/bin/env python3
"""Regenerates section 12 of DESIGN.md from seeded/*/meta.json."""
import json, glob
rows = []
first_missed = []
for d in sorted(glob.glob('/verif/seeded/*/meta.json')):
    m = json.load(open(d))
    res = '; '.join('%s: %s' % (k, v) for k, v in m['results'].items())
    if 'first MISSED' in res:
        first_missed.append(m['id'])
    rows.append('| `%s` | %s | %s | %s |' % (m['id'], m['change'].replace('|', '\\|'), m['needs_to_manifest'].replace('|', '\\|'), res.replace('|', '\\|')))
n = len(rows)
txt = '''## 12. Seeded changes

%d changes were produced by fresh sub-agents in six rounds (the third, in two batches, asked explicitly for
less obvious mechanisms: unusual type parameters, rarely used entry points, error paths,
feature interactions; the fourth for secondary clauses of the statements, silent effects,
shared helpers and almost-equivalent clean-ups; the fifth the same, confined to the files
the earlier rounds had hardly touched; the sixth required changes that randomized testing
over all type configurations would need well over 10^5 cases to hit), each agent given only the text of one property and its own scratch git
worktree under `/tmp` (nothing from `/verif`), and asked for a change that still compiles and
passes the whole existing test suite but breaks the property, with a demonstration. Each was
kept only after `tools/confirm_mutant.sh` confirmed, in the scratch worktree: the patch
applies, the full suite passes with it, the demo fails with it and passes without it.
`tools/try_mutant.py` then applied each to `/repo`, ran the named checks (quick tier, seed 1,
evidence redirected to a scratch directory) and undid it. Every change is kept as
`seeded/<id>/{patch.diff, demo.rs, notes.md, meta.json}`. Several agents independently
produced the same slip (they are kept: they show which sites attract mistakes), several
re-introduced defects of section 6, and two reported the then-known K1 limitation on their
own. Thirteen patches touch the lines that fix commit `4aeff50` (F14) changed later; they were
ported onto the new HEAD (same change, original kept as `patch.before-4aeff50.diff`) and
re-confirmed; all 119 Rust demos pass on the final unchanged tree. `seeded/MATRIX.json` is the
result of re-running every change against its check(s) on the final tree
(`tools/seeded_matrix.py`).

**Result: every change is caught by at least one check, and all but two by the check of the
property it was aimed at** (`C01-d`, a write-failure change, is outside C01's quantifier and is
caught by C09; `C03-g` accepts an invalid input, which is C19's clause, and is caught by C19). %d changes (%s) were first *missed* by the targeted check and led to
strengthening its **workload** (never by loosening or special-casing an oracle): encoders
reused after `clear()` (C06, C12), peeks while encoding (C02, C12), raw-binary peeks (C12),
raw-binary and imported starts (C01, C06), i8/u8 quantised models and lookup models at
`PRECISION == Probability bits` (C10), chain decoding of arbitrary words across precision
changes (C10), lookup models obtained by conversion (C03), f32 weights with inexact sums
against a reference run in f32 arithmetic (C15), out-of-alphabet probes that alias valid
symbols after shifts and wrap-around (C15), `get_compressed` views inside bit-coder histories
(C16), bit coders over bounded and failing sinks (C16), finite constant normalisations
independent of the entries (C19), range decoders over reversed data with mirrored positions
(C07), refused seeks, retries after out-of-data and transient read failures between chain
decodes (C14), bulk writes on cursors (C17), models built from hostile float tables on the
fixed-point grid and then used through every method (C20); and from round 4: clones taken
by `clone_from` onto stale copies (C01, C08, C14), iterator adaptors over the decoding
iterators (C01, C14), write faults inside batch encodes (C09), lazy models beyond the float
mantissa with words placed at symbol boundaries and range decoders from validated raw parts
(C10), encoders started on pre-filled sinks and inspected before the first symbol (C08, C11,
C18), peeks inside format messages (C06), export views between size queries (C18), one more
parameter mode of the Python models (C19); from round 5 (mostly extended on the agents'
reports before trying): iterator methods that discard (`count`, `last`, `fold`) on the
decoding iterators of both coders (C01, C02), in-support values with arbitrary higher bits and
generic conversions of uniform models (C09), an exactly-fitting forward cursor (C04), uniform
models with 64-bit probabilities (C10), 90-bit Huffman code words in bit-coder histories (C16),
queue-decoder exhaustion and diagnostics through `&M` (C18), lookup models converted from the
non-contiguous decoder (C05); from round 6: 'marathon' steering that keeps 36-90 words held
back at once (all range-coder properties), a head-steering adversary and 128-bit State rows
for the chain coder (C13), a bit-budget oracle across precision changes and seeks back within
a word (C14), decoders suspended into raw parts and resumed (C02), a user-written seekable
source relying on trait defaults (C07), unbounded size hints and cursor copies (C17), 100-250
bit code words (C15), views inside ANS format messages (C06), larger explorer slices (C20). "missed" entries for *other* properties' checks are listed for completeness; they are
outside those properties' statements.

| id | change | needs to manifest | checks run (quick) |
|---|---|---|---|
''' % (n, len(first_missed), ', '.join('`%s`' % x for x in first_missed)) + '\n'.join(rows) + '\n'
p = '/verif/DESIGN.md'
s = open(p).read()
i = s.index('## 12. Seeded changes')
open(p, 'w').write(s[:i] + txt)
print(n, "seeded changes;", len(first_missed), "first missed")
