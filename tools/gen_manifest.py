#!/usr/bin/env python3
"""Regenerates /verif/MANIFEST.json from tools/manifest_entries.py (kept in sync with props_config.py)."""
import json
import os
import subprocess
import sys

ROOT = os.path.dirname(os.path.dirname(os.path.abspath(__file__)))
sys.path.insert(0, ROOT)
sys.path.insert(0, os.path.join(ROOT, "tools"))
from props_config import PROPS  # noqa: E402
from manifest_entries import ENTRIES, NOT_BUILT_REASON, NOT_APPLICABLE  # noqa: E402

ALL = ["C%02d" % i for i in range(1, 21)]


def hook_commits():
    try:
        out = subprocess.run(["git", "-C", "/repo", "log", "--format=%H %s"], stdout=subprocess.PIPE, text=True).stdout
        return [l.split()[0] for l in out.splitlines() if " verif hooks" in l]
    except Exception:
        return []


def main():
    checks = []
    na = []
    for pid in ALL:
        if pid in PROPS and pid in ENTRIES:
            e = ENTRIES[pid]
            checks.append({
                "property_id": pid,
                "quick_cmd": "./check %s quick" % pid,
                "thorough_cmd": "./check %s thorough" % pid,
                "evidence_file": "/verif/evidence/%s.json" % pid,
                "replay_cmd_template": "./check replay {path}",
                "engine": "cvmon",
                "level_claimed": {
                    "category": "exploration",
                    "text": e["text"],
                    "design_ref": e.get("design_ref", "DESIGN.md section 5, " + pid),
                },
                "level_note": e["note"],
                "technique": e["technique"],
            })
        else:
            na.append({"property_id": pid, "reason": NOT_APPLICABLE.get(pid, NOT_BUILT_REASON)})
    m = {
        "version": 1,
        "setup_cmd": "./check setup",
        "hooks": {
            "guard": "--cfg constriction_verif",
            "enable": "RUSTFLAGS=\"--cfg constriction_verif\" (set by ./check for every flavour; the harness crate path-depends on /repo)",
            "baseline_off_cmd": "cd /repo && cargo nextest run --workspace --no-fail-fast --offline || cargo test --workspace --no-fail-fast --offline",
            "source_commits": hook_commits(),
            "add_only": True,
        },
        "engines": [{
            "name": "cvmon",
            "path": "/verif/harness",
            "serves_properties": [c["property_id"] for c in checks],
            "kind_free_text": "Rust harness executing the real library under generated hostile histories while reference-model, twin, "
                              "shadow-state and invariant monitors watch; built as dbg (std UB checks + overflow checks), rel, ASan, Miri "
                              "flavours; python3 stdlib driver ./check shards, localises aborts, classifies, writes evidence",
        }],
        "checks": checks,
        "notes": "Runtime monitoring and sanitizers only. Verdicts are three-valued (VIOLATION / held on what was observed / INCONCLUSIVE); "
                 "known findings are listed in known_findings.json and matched on root-cause signatures.",
        "not_applicable": na,
    }
    with open(os.path.join(ROOT, "MANIFEST.json"), "w") as f:
        json.dump(m, f, indent=1)
    print("MANIFEST.json: %d checks, %d not claimed" % (len(checks), len(na)))


if __name__ == "__main__":
    main()
