#!/usr/bin/env python3
"""Python front end workload (flavour `py` of ./check): drives the real `constriction` Python
extension, built from /repo's working tree with `--features pybindings`, and speaks the same
command-line / JSON-lines protocol as the Rust harness (`cvmon`).

  main.py <PROP> py <tier> <seed> <shard> <nshards> <ncases> [--from I] [--only I] [--trace] [--hashes FILE]

Only C19 has a Python part: every model class of `constriction.stream.model` is constructed
from valid and hostile arguments (constructor arguments and per-symbol parameter arrays).
  * a constructor / first use that raises (ValueError, TypeError, OverflowError, PanicException)
    is a clean rejection;
  * a model that was accepted - its first use succeeded - must behave as a valid, exactly
    invertible model (C03) in everything observable from Python:
      - symbols decoded from arbitrary words lie in the support the arguments describe,
      - encoding those symbols back restores the words exactly (bits-back; implies that the
        model's intervals tile the whole range without gap or overlap at the sampled quantiles),
      - every (sampled) symbol of the support can be encoded and decodes to itself, on the ANS
        coder and on the range coder,
      - no later call with the same model and parameters fails.
"""
import faulthandler
import hashlib
import json
import os
import random
import resource
import sys
import time


def usage():
    sys.stderr.write("usage: main.py <PROP> py <tier> <seed> <shard> <nshards> <ncases> [--from I] [--only I] [--trace] [--hashes FILE]\n")
    sys.exit(2)


if len(sys.argv) < 8:
    usage()
PROP, FLAVOUR, TIER = sys.argv[1], sys.argv[2], sys.argv[3]
SEED, SHARD, NSHARDS, NCASES = (int(x) for x in sys.argv[4:8])
FROM, ONLY, TRACE, HASHES = 0, None, False, None
i = 8
while i < len(sys.argv):
    a = sys.argv[i]
    if a == "--from":
        FROM = int(sys.argv[i + 1]); i += 1
    elif a == "--only":
        ONLY = int(sys.argv[i + 1]); i += 1
    elif a == "--trace":
        TRACE = True
    elif a == "--hashes":
        HASHES = sys.argv[i + 1]; i += 1
    elif a == "--no-extra":
        pass
    else:
        sys.stderr.write("unknown argument %s\n" % a)
        sys.exit(2)
    i += 1
if PROP != "C19":
    sys.stderr.write("unknown property %s (the Python front end workload exists for C19 only)\n" % PROP)
    sys.exit(2)

os.environ["RUST_BACKTRACE"] = "1" if TRACE else "0"
import numpy as np  # noqa: E402
import constriction  # noqa: E402

M = constriction.stream.model
ST = constriction.stream.stack
QU = constriction.stream.queue

counters = {}
sig_counts = {}
samples = []
hashes = set()
violations = 0
printed = 0
panics = 0


def count(k, n=1):
    counters[k] = counters.get(k, 0) + n


class Violation(Exception):
    def __init__(self, sig, detail):
        Exception.__init__(self, detail)
        self.sig = sig
        self.detail = detail


NAN, INF = float("nan"), float("inf")


def pick(rng, xs):
    return xs[rng.randrange(len(xs))]


def hostile_float(rng):
    return pick(rng, [0.0, -0.0, -1.0, -1e-300, NAN, INF, -INF, 1e-320, 1e308, -1e308, 1e-30])


def gen_table(rng):
    """float table + class name"""
    n = pick(rng, [0, 1, 2, 2, 3, 5, 8, 17, 40, rng.randrange(1, 300)])
    v = [rng.random() for _ in range(n)]
    cls = rng.randrange(10)
    name = "valid"
    if cls == 0 and n:
        for k in range(n):
            if rng.random() < 0.3:
                v[k] = -v[k]
        name = "negative-entries"
    elif cls == 1 and n:
        v[rng.randrange(n)] = -1e-4 * rng.random()
        name = "one-small-negative"
    elif cls == 2 and n:
        v[rng.randrange(n)] = NAN
        name = "nan"
    elif cls == 3 and n:
        v[rng.randrange(n)] = pick(rng, [INF, -INF])
        name = "infinite"
    elif cls == 4:
        v = [0.0] * n
        name = "all-zero"
    elif cls == 5:
        v = [5e-324 * (1 + rng.randrange(4)) for _ in range(n)]
        name = "subnormal-only"
    elif cls == 6:
        v = [1e308 * (0.5 + 0.5 * rng.random()) for _ in range(n)]
        name = "sum-overflows"
    elif cls == 7 and n:
        # on the fixed-point grid of the 24-bit presets, with one hostile value
        v = [(rng.randrange(4) + pick(rng, [0.0, 0.5, 0.999])) / 2.0 ** 24 for _ in range(n)]
        v[-1] = 1.0
        if rng.random() < 0.5:
            v[rng.randrange(n)] = hostile_float(rng)
        name = "grid-units"
    elif n < 2:
        name = "too-short"
    if name == "valid" and (n < 2 or not any(x > 0 for x in v)):
        name = "too-short"
    return v, name


def arr(v, dtype):
    return np.array(v, dtype=dtype)


def gen_case(rng):
    """returns (desc, build, call_params(n) or None, lo, hi, classes) where build() -> model"""
    fam = rng.randrange(10)
    if fam in (0, 1):
        v, cname = gen_table(rng)
        dt = pick(rng, [np.float64, np.float32])
        mode = pick(rng, [dict(perfect=False), dict(perfect=True), dict(lazy=True), dict(lazy=False, perfect=False), dict(lazy=True, perfect=False)])
        if fam == 0:
            desc = "Categorical(%s %s, %s)" % (dt.__name__, short(v), mode)
            return desc, (lambda: M.Categorical(arr(v, dt), **mode)), None, 0, len(v) - 1, cname
        # parameterised family: one table per symbol
        rows = rng.randrange(1, 4)
        tabs = [v] + [[rng.random() + 1e-3 for _ in v] for _ in range(rows - 1)]
        rng.shuffle(tabs)
        desc = "Categorical(%s) with per-symbol tables %s %s" % (mode, dt.__name__, [short(t) for t in tabs])
        mat = arr(tabs, dt) if len(v) else np.zeros((rows, 0), dtype=dt)
        return desc, (lambda: M.Categorical(**mode)), (lambda n: (mat,), rows), 0, len(v) - 1, cname
    if fam == 2:
        size = pick(rng, [0, 1, 2, 3, 7, 255, 256, 65536, 2 ** 24 - 1, 2 ** 24, 2 ** 24 + 1, -1, -2 ** 31, 2 ** 31 - 1, rng.randrange(2, 5000)])
        cname = "valid" if 2 <= size < 2 ** 24 else "invalid-size"
        if rng.random() < 0.5:
            return "Uniform(%d)" % size, (lambda: M.Uniform(size)), None, 0, size - 1, cname
        k = rng.randrange(1, 4)
        sizes = [size] + [rng.randrange(2, 50) for _ in range(k - 1)]
        rng.shuffle(sizes)
        return "Uniform() with sizes %s" % sizes, (lambda: M.Uniform()), (lambda n: (arr(sizes, np.int32),), k), 0, max(sizes) - 1, cname
    if fam in (3, 4, 5):
        cls = [M.QuantizedGaussian, M.QuantizedLaplace, M.QuantizedCauchy][fam - 3]
        lo, hi = pick(rng, [(-10, 10), (0, 1), (0, 0), (5, 4), (-100, 100), (-2 ** 31, 2 ** 31 - 1), (0, 2 ** 24), (0, 2 ** 24 - 2), (0, 2 ** 24 - 1),
                            (-2 ** 23, 2 ** 23), (2 ** 31 - 10, 2 ** 31 - 1), (-2 ** 31, -2 ** 31 + 5), (-3, 60000)])
        mean = pick(rng, [0.0, 0.3, -7.5, 1e9, -1e9, 1e300, NAN, INF, -INF, lo - 0.5, hi + 0.5, (lo + hi) / 2.0])
        scale = pick(rng, [1.0, 3.7, 1e-3, 1e-9, 1e-300, 5e-324, 1e6, 1e300, 0.0, -0.0, -1.0, NAN, INF, 0.5, 20.0])
        ok_range = lo < hi and hi - lo + 1 <= 2 ** 24
        ok_par = np.isfinite(mean) and scale > 0 and np.isfinite(scale)
        cname = "valid" if ok_range and ok_par else ("invalid-range" if not ok_range else "invalid-parameter")
        how = rng.randrange(4)
        if how == 3:
            # scale fixed at construction (keyword), locations per symbol
            kw = {"QuantizedGaussian": "std", "QuantizedLaplace": "scale", "QuantizedCauchy": "scale"}[cls.__name__]
            k = rng.randrange(1, 4)
            means = [mean] + [rng.uniform(-5, 5) for _ in range(k - 1)]
            rng.shuffle(means)
            dt = pick(rng, [np.float64, np.float32])
            return ("%s(%d,%d,%s=%r) with locations %r %s" % (cls.__name__, lo, hi, kw, scale, means, dt.__name__), (lambda: cls(lo, hi, **{kw: scale})),
                    (lambda n: (arr(means, dt),), k), lo, hi, cname)
        if how == 0:
            return "%s(%d,%d,%r,%r)" % (cls.__name__, lo, hi, mean, scale), (lambda: cls(lo, hi, mean, scale)), None, lo, hi, cname
        k = rng.randrange(1, 4)
        means = [mean] + [rng.uniform(-5, 5) for _ in range(k - 1)]
        scales = [scale] + [rng.uniform(0.1, 5) for _ in range(k - 1)]
        j = rng.randrange(k)
        means[0], means[j] = means[j], means[0]
        scales[0], scales[j] = scales[j], scales[0]
        dt = pick(rng, [np.float64, np.float32])
        if how == 1:
            return ("%s(%d,%d) with means %r scales %r %s" % (cls.__name__, lo, hi, means, scales, dt.__name__), (lambda: cls(lo, hi)),
                    (lambda n: (arr(means, dt), arr(scales, dt)), k), lo, hi, cname)
        return ("%s(%d,%d,mean=%r) with scales %r %s" % (cls.__name__, lo, hi, mean, scales, dt.__name__), (lambda: cls(lo, hi, mean)),
                (lambda n: (arr(scales, dt),), k), lo, hi, cname)
    if fam == 6:
        # Accepted cases stay in the regime in which the third-party `probability::Binomial` is known
        # to behave (n <= 600, p in {0, 1, 1e-30, 1 - 1e-9, moderate}; the same regime as the Rust
        # harness's C03 generator): outside it the third-party `inverse` may not terminate, which
        # the repository's own test (`leakily_quantized_binomial`) documents and works around, and
        # its CDF costs O(n). Everything else generated here must be rejected.
        n = pick(rng, [0, 1, 2, 10, 100, 600, 2 ** 24, 2 ** 24 + 1, -1, -2 ** 31, 2 ** 31 - 1, rng.randrange(1, 601), rng.randrange(1, 601)])
        p = pick(rng, [0.0, 1.0, 0.5, 1e-30, 1 - 1e-9, -0.1, 1.1, -1e-300, NAN, INF, -INF, min(max(rng.random(), 1e-12), 1 - 1e-12), rng.random()])
        cname = "valid" if 1 <= n <= 600 and 0 <= p <= 1 else "invalid-parameter"
        if rng.random() < 0.5:
            return "Binomial(%d,%r)" % (n, p), (lambda: M.Binomial(n, p)), None, 0, n, cname
        k = rng.randrange(1, 4)
        ps = [p] + [rng.random() for _ in range(k - 1)]
        rng.shuffle(ps)
        return "Binomial(%d) with ps %r" % (n, ps), (lambda: M.Binomial(n)), (lambda m: (arr(ps, np.float64),), k), 0, n, cname
    if fam == 7:
        p = pick(rng, [0.0, 1.0, 0.5, 1e-9, 1 - 1e-9, 1e-300, -0.1, 1.1, NAN, INF, -INF, rng.random()])
        perfect = pick(rng, [True, False])
        cname = "valid" if 0 <= p <= 1 else "invalid-parameter"
        if rng.random() < 0.5:
            return "Bernoulli(%r, perfect=%s)" % (p, perfect), (lambda: M.Bernoulli(p, perfect=perfect)), None, 0, 1, cname
        k = rng.randrange(1, 4)
        ps = [p] + [rng.random() for _ in range(k - 1)]
        rng.shuffle(ps)
        return "Bernoulli(perfect=%s) with ps %r" % (perfect, ps), (lambda: M.Bernoulli(perfect=perfect)), (lambda m: (arr(ps, np.float64),), k), 0, 1, cname
    if fam == 9:
        # ScipyModel over well-behaved scipy.stats distributions (frozen, or as a family with
        # per-symbol parameters) and hostile or valid ranges; broken user-supplied distributions
        # are outside the quantifier
        import scipy.stats
        dist = pick(rng, [scipy.stats.norm, scipy.stats.cauchy, scipy.stats.laplace, scipy.stats.logistic])
        lo, hi = pick(rng, [(-10, 10), (0, 1), (0, 0), (5, 4), (-100, 100), (0, 2 ** 24), (0, 2 ** 24 - 1), (-2 ** 31, 2 ** 31 - 1), (-3, 60000)])
        cname = "valid" if lo < hi and hi - lo + 1 <= 2 ** 24 else "invalid-range"
        loc, scale = rng.uniform(-5, 5), rng.uniform(0.2, 5)
        if rng.random() < 0.5:
            return ("ScipyModel(%s(loc=%.3f, scale=%.3f), %d, %d)" % (dist.name, loc, scale, lo, hi), (lambda: M.ScipyModel(dist(loc=loc, scale=scale), lo, hi)), None, lo, hi, cname)
        k = rng.randrange(1, 4)
        locs = [loc] + [rng.uniform(-5, 5) for _ in range(k - 1)]
        scales = [scale] + [rng.uniform(0.2, 5) for _ in range(k - 1)]
        return ("ScipyModel(%s, %d, %d) with locs %r scales %r" % (dist.name, lo, hi, locs, scales), (lambda: M.ScipyModel(dist, lo, hi)),
                (lambda n: (arr(locs, np.float64), arr(scales, np.float64)), k), lo, hi, cname)
    # CustomModel with a well-behaved logistic CDF over a hostile or valid range
    lo, hi = pick(rng, [(-10, 10), (0, 1), (0, 0), (5, 4), (-100, 100), (0, 2 ** 24), (0, 2 ** 24 - 1), (-2 ** 31, 2 ** 31 - 1)])
    mu, s = rng.uniform(-5, 5), rng.uniform(0.2, 5)

    def cdf(x):
        z = (x - mu) / s
        if z < -700:
            return 0.0
        return 1.0 / (1.0 + np.exp(-z))

    def ppf(q):
        q = min(max(q, 1e-300), 1 - 1e-16)
        return mu + s * np.log(q / (1 - q))
    cname = "valid" if lo < hi and hi - lo + 1 <= 2 ** 24 else "invalid-range"
    return "CustomModel(logistic(%.3f,%.3f), %d, %d)" % (mu, s, lo, hi), (lambda: M.CustomModel(cdf, ppf, lo, hi)), None, lo, hi, cname


def short(v):
    if len(v) <= 6:
        return repr(v)
    return "[%s, ... %d entries, ... %s]" % (", ".join(repr(x) for x in v[:3]), len(v), ", ".join(repr(x) for x in v[-2:]))


REJECT = (ValueError, TypeError, OverflowError, AssertionError, MemoryError)


def is_rejection(e):
    return isinstance(e, REJECT) or type(e).__name__ == "PanicException"


def run_case(rng, index):
    global panics
    desc, build, call, lo, hi, cname = gen_case(rng)
    if TRACE:
        # root-cause tag for the driver's abort / hang classifier: the model class
        sys.stderr.write("# %s {{sig:%s}}\n" % (desc[:1500], desc.split("(")[0]))
        sys.stderr.flush()
    count("py_cases")
    count("py_class_" + ("valid" if cname == "valid" else "invalid"))
    h = hashlib.blake2b(desc.encode(), digest_size=8).digest()
    nontrivial = cname != "valid"
    # --- construction
    try:
        model = build()
    except BaseException as e:  # noqa
        if isinstance(e, (KeyboardInterrupt, SystemExit)):
            raise
        if not is_rejection(e):
            raise Violation("C19/py/unexpected-exception/" + type(e).__name__, "%s :: constructor raised %r" % (desc, e))
        if type(e).__name__ == "PanicException":
            panics += 1
        count("py_rejected_by_constructor")
        return h, nontrivial, desc + " -> rejected (%s)" % type(e).__name__
    # --- first use: decode from arbitrary words
    nwords = rng.randrange(4, 12)
    data = np.array([rng.getrandbits(32) for _ in range(nwords)], dtype=np.uint32)
    if call is None:
        n = rng.randrange(1, 9)
        params = ()
        amt = (n,)
    else:
        mk, n = call
        params = mk(n)
        amt = ()
    try:
        coder = ST.AnsCoder(data, seal=True)
        syms = coder.decode(model, *amt, *params)
    except BaseException as e:  # noqa
        if isinstance(e, (KeyboardInterrupt, SystemExit)):
            raise
        if not is_rejection(e):
            raise Violation("C19/py/unexpected-exception/" + type(e).__name__, "%s :: first use raised %r" % (desc, e))
        if type(e).__name__ == "PanicException":
            panics += 1
        count("py_rejected_at_first_use")
        return h, nontrivial, desc + " -> rejected at first use (%s)" % type(e).__name__
    count("py_accepted")
    if cname != "valid":
        count("py_accepted_although_classified_invalid")
    syms = np.atleast_1d(np.asarray(syms))
    if len(syms) != n:
        raise Violation("C19/py/decode-length", "%s :: decode returned %d symbols, asked for %d" % (desc, len(syms), n))
    # from here on nothing may fail and everything must be exactly invertible
    try:
        if call is not None and desc.startswith("Uniform()"):
            for sy, sz in zip(syms.tolist(), params[0].tolist()):
                if not 0 <= sy < sz:
                    raise Violation("C19/py/symbol-outside-support", "%s :: decoded %r from arbitrary words" % (desc, syms.tolist()))
        if lo <= hi and (syms.min() < lo or syms.max() > hi):
            raise Violation("C19/py/symbol-outside-support", "%s :: decoded %r from arbitrary words, support is %d..=%d" % (desc, syms.tolist(), lo, hi))
        coder.encode_reverse(syms, model, *params)
        back = coder.get_compressed(unseal=True)
        if back.tolist() != data.tolist():
            raise Violation("C19/py/bits-back-not-restored", "%s :: decoded %r from %r; encoding them back gives %r" % (desc, syms.tolist(), data.tolist(), back.tolist()))
        count("py_bits_back_round_trips")
        # chosen symbols of the support
        width = hi - lo + 1
        cand = [lo, hi, lo + 1, hi - 1, (lo + hi) // 2] + [rng.randrange(lo, hi + 1) for _ in range(12)]
        cand = [s for s in cand if lo <= s <= hi]
        if width <= 24:
            cand = list(range(lo, hi + 1)) + cand
        want = np.array([pick(rng, cand) for _ in range(n)], dtype=np.int32)
        if call is not None and desc.startswith("Uniform()"):
            want = np.array([min(int(w), int(sz) - 1) for w, sz in zip(want, params[0])], dtype=np.int32)
        enc = ST.AnsCoder()
        enc.encode_reverse(want, model, *params)
        got = np.atleast_1d(np.asarray(enc.decode(model, *amt, *params)))
        if got.tolist() != want.tolist():
            raise Violation("C19/py/round-trip", "%s :: ANS encoded %r, decoded %r" % (desc, want.tolist(), got.tolist()))
        if not enc.is_empty():
            raise Violation("C19/py/round-trip", "%s :: ANS coder not empty after decoding everything that was encoded" % desc)
        renc = QU.RangeEncoder()
        renc.encode(want, model, *params)
        rdec = QU.RangeDecoder(renc.get_compressed())
        got = np.atleast_1d(np.asarray(rdec.decode(model, *amt, *params)))
        if got.tolist() != want.tolist():
            raise Violation("C19/py/round-trip", "%s :: range-encoded %r, decoded %r" % (desc, want.tolist(), got.tolist()))
        count("py_symbols_round_tripped", 2 * n)
    except Violation:
        raise
    except BaseException as e:  # noqa
        if isinstance(e, (KeyboardInterrupt, SystemExit)):
            raise
        raise Violation("C19/py/accepted-model-fails-later/" + type(e).__name__, "%s :: the model decoded %r fine, then a later call raised %r" % (desc, syms.tolist(), e))
    return h, True if cname != "valid" else width <= 2, desc + " -> accepted and validated"


CASE_CPU_S = int(os.environ.get("PYFRONT_CASE_CPU_S", "30"))
CASE_TIMEOUT_S = int(os.environ.get("PYFRONT_CASE_TIMEOUT", "900"))


def case_seed(index):
    return "cvmon-py|%d|%s|%d|%d|%d" % (SEED, PROP, SHARD, NSHARDS, index)


def main():
    global violations, printed
    lo_i, hi_i = (ONLY, ONLY + 1) if ONLY is not None else (FROM, NCASES)
    evaluations = 0
    for index in range(lo_i, hi_i):
        if TRACE:
            sys.stderr.write("@ %d\n" % index)
            sys.stderr.flush()
        rng = random.Random(case_seed(index))
        # A call into the extension that never returns holds the GIL, so no Python-level timer can
        # fire. Per-case CPU-time budget: the soft RLIMIT_CPU is moved ahead of the CPU time used so
        # far; the kernel ends the process with SIGXCPU when one case burns more than that (the
        # driver then localises the case by re-running with --trace and reports kind "hang").
        # A very generous wall-clock watchdog (faulthandler, C level) is kept as a fallback.
        resource.setrlimit(resource.RLIMIT_CPU, (int(time.process_time()) + 1 + CASE_CPU_S, resource.RLIM_INFINITY))
        faulthandler.dump_traceback_later(CASE_TIMEOUT_S, exit=True)
        try:
            h, nontrivial, d = run_case(rng, index)
            if TRACE:
                sys.stderr.write("# %s\n" % d[:1500])
            if nontrivial and len(hashes) < 50000:
                hashes.add(h)
            if len(samples) < 3 and nontrivial:
                samples.append("[py] " + d[:300])
        except Violation as v:
            violations += 1
            sig_counts[v.sig] = sig_counts.get(v.sig, 0) + 1
            if sig_counts[v.sig] == 1 and printed < 20:
                printed += 1
                print(json.dumps({"type": "violation", "prop": PROP, "flavour": FLAVOUR, "seed": SEED, "shard": SHARD, "nshards": NSHARDS,
                                  "index": index, "kind": "python-front-end", "sig": v.sig, "detail": v.detail[:3000]}))
        evaluations += 1
    faulthandler.cancel_dump_traceback_later()
    resource.setrlimit(resource.RLIMIT_CPU, (resource.RLIM_INFINITY, resource.RLIM_INFINITY))
    if HASHES:
        with open(HASHES, "wb") as f:
            for h in hashes:
                f.write(h)
    print(json.dumps({"type": "summary", "prop": PROP, "flavour": FLAVOUR, "seed": SEED, "shard": SHARD, "evaluations": evaluations,
                      "distinct_nontrivial": len(hashes), "violations": violations, "panics_observed": panics, "counters": counters,
                      "sig_counts": sig_counts, "maxima": {}, "samples": samples}))
    sys.stdout.flush()
    return 0


if __name__ == "__main__":
    rc = main()
    sys.stdout.flush()
    sys.stderr.flush()
    os._exit(rc)
